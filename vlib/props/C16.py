"""C16 - export and rendering are faithful, bounded and independent of the output target (claimed PARTLY).

Three groups (DESIGN.md section 5, C16):
  1. write layer of export.c with an arbitrary exporter (harness/h_c16.c)
  2. bounded text output of exp-txt.c through an iconv model (harness/h_c16_txt.c)
  3. region rendering of exp-gfx.c into exact-size canvases (harness/h_c16_gfx.c)
Outside the claim: PNG (libpng), XPM/PPM/HTML whole-page byte identity, real iconv charsets, "same pixels as the
full-page rendering" beyond the cells drawn here.

VERIF_C16_STRICT=1 drops the KNOWN_* defines: the property is then stated as written and the affected obligations
come back refuted with a replayable counterexample (see the report / known findings).
"""
import os
from vlib.runner import Ob

STRICT = True   # the defects these guards masked are fixed in /repo; the obligations state the property as written

IO_STUBS = ["fwrite/clearerr/open/write/close/stat/unlink = models/c16_io.c (byte log, fault plan: short count, -1, "
            "0-progress writes, EINTR on open, close failure)",
            "vsnprintf/snprintf/strerror/dgettext (error message text) = empty string (CBMC only)",
            "models/c16_stubs.c: export module classes, vbi_init, _vbi_strndup_iconv (unreached)"]

# kinds that append n bytes: n == 0: write/puts("")/puts(NULL)/flush/direct (5), n == 1: write/putc/puts/direct (4), else write/puts/direct (3)
def _nk(n):
    return 5 if n == 0 else 4 if n == 1 else 3


def _kind_vectors(lens, full):
    """KINDS = 4 decimal digits, digit i = index into the kinds that append lens[i] bytes"""
    n = [_nk(l) for l in lens]
    if full:
        return [a * 1000 + b * 100 + c * 10 + d for a in range(n[0]) for b in range(n[1]) for c in range(n[2]) for d in range(n[3])]
    # covering subset: every kind at every position, neighbours varied
    out = []
    for k in range(10):
        v = (k % n[0]) * 1000 + ((k + k // n[0]) % n[1]) * 100 + ((2 * k + 1) % n[2]) * 10 + ((k + 2) % n[3])
        if v not in out:
            out.append(v)
    return out


def _lens(l):
    return dict(L0=l[0], L1=l[1], L2=l[2], L3=l[3])


def write_layer():
    common = dict(harness="h_c16.c", units=["src/misc.c"], models=["c16_io.c", "c16_stubs.c"], unwind=12,
                  unwindset={"c16_append.0": 18, "write_fd.0": 13, "write_fd.1": 2, "xopen.0": 12, "xclose.0": 12, "strlen.0": 8, "strcpy.0": 4, "strdup.0": 4},
                  stubs=IO_STUBS + ["realloc/malloc/free = CBMC built-in models (fresh exact-size object per allocation, --no-malloc-may-fail)"],
                  vin_size=64)
    LA, LB = (2, 1, 0, 3), (0, 3, 1, 1)
    ops = ("exporter = 4 operations appending (L0,L1,L2,L3) bytes; byte counts and operation kinds ENUMERATED on the grid (kinds: vbi_export_write, putc, "
           "puts(string/NULL), flush, grow-then-store-directly - every kind that appends that many bytes), byte contents and the exporter's return value symbolic. "
           "Symbolic lengths/kinds were measured infeasible (symbolic-size realloc/memcpy: 10 GB, no result in 140 s; symbolic kinds: no result in 290 s)")
    g_full, g_quick = [], []
    for lens, full in ((LA, True), (LB, False)):
        need = sum(lens)
        for kv in _kind_vectors(lens, full):
            for b in range(0, need + 2):
                g_full.append(dict(_lens(lens), KINDS=kv, BUFSZ=b))
    for kv in _kind_vectors(LA, False)[:8]:
        for b in (0, 2, 3, 5, 6, 7):
            g_quick.append(dict(_lens(LA), KINDS=kv, BUFSZ=b))
    k_full = [dict(_lens(LA), KINDS=kv) for kv in _kind_vectors(LA, True)] + [dict(_lens(LB), KINDS=kv) for kv in _kind_vectors(LB, False)]
    k_quick = [dict(_lens(LA), KINDS=kv) for kv in _kind_vectors(LA, False)]
    return [
        Ob("write_mem_alloc", func="h_c16_mem",
           desc="vbi_export_mem into an exact-size object of BUFSZ bytes, then vbi_export_alloc, same exporter: mem returns the total size needed, "
                "the first min(BUFSZ,total) bytes equal the reference stream, buffer[BUFSZ] is never accessed (object bounds), alloc returns exactly "
                "the reference stream; export object left clean; exporter failure -> -1 / NULL with outputs untouched",
           encodes=["vbi_export_mem", "vbi_export_alloc", "_vbi_export_grow_buffer_space", "vbi_export_write", "vbi_export_putc",
                    "vbi_export_puts", "vbi_export_flush", "_vbi_grow_vector_capacity"],
           bounds=ops + "; BUFSZ enumerated 0..needed+1 for byte counts (2,1,0,3) x all 180 kind vectors and (0,3,1,1) x 10 kind vectors (quick: 8 kind vectors x 6 sizes)",
           outside="vbi_export_printf/vprintf, puts_iconv; allocation failure; outputs >= 64 KiB (growth policy switch); other byte-count vectors",
           grid=g_full, quick_grid=g_quick, reach=["end"], timeout=120, mem_gb=1, **common),
        Ob("write_printf", func="h_c16_mem",
           desc="write_mem_alloc with vbi_export_printf(e, \"%s\", string) among the operations (PFMASK: which ones; the others vbi_export_write): the formatted bytes land "
                "in the stream exactly like written ones, for every user buffer size around the total - including the output that ends exactly at the buffer capacity "
                "(vsnprintf then reports a length == space available and has truncated: the buffer must grow)",
           encodes=["vbi_export_vprintf", "vbi_export_printf", "vbi_export_mem", "vbi_export_alloc", "_vbi_export_grow_buffer_space"],
           bounds="byte counts (2,1,0,3) and (0,3,1,1); printf at operation 2 (empty string) / 3 / 2+3 / 1+2+3; BUFSZ 0..needed+1 (quick: printf last and 1+2+3, 4 sizes)",
           outside="templates other than %s (the template only reaches vsnprintf); VBI_EXPORT_TARGET_FP (vfprintf path); vsnprintf returning -1 (pre-C99 libc)",
           # printf is never the FIRST operation here: with the buffer still unallocated vbi_export_vprintf computes e->buffer.data + offset = NULL + 0
           # (export.c:1483; UBSan "applying zero offset to null pointer", harmless with glibc) - reported as a suspected defect, obligation write_printf_first
           grid=[dict(_lens(l), KINDS=0, PFMASK=m, BUFSZ=b) for l in (LA, LB) for m in (4, 8, 12, 14) for b in range(0, sum(l) + 2)],
           quick_grid=[dict(_lens(LA), KINDS=0, PFMASK=m, BUFSZ=b) for m in (8, 14) for b in (3, 5, 6, 7)],
           reach=["end"], timeout=120, mem_gb=1,
           **dict(common, unwindset=dict(common["unwindset"], **{"vsnprintf.0": 8}),
                  stubs=common["stubs"] + ["vsnprintf(\"%s\") = models/c16_stubs.c: C99 semantics (at most n-1 characters + NUL, returns the untruncated length)"])),
    ] + ([
        Ob("write_printf_first", func="h_c16_mem",
           desc="CANDIDATE (only with VERIF_CANDIDATES=1; refutes the unchanged tree): vbi_export_printf as the first output call of an exporter on the alloc target: "
                "e->buffer.data is still NULL and vbi_export_vprintf evaluates e->buffer.data + offset (NULL + 0, export.c:1483)",
           encodes=["vbi_export_vprintf"], bounds="one layout", grid=[dict(_lens(LA), KINDS=0, PFMASK=1, BUFSZ=7)], reach=["end"], timeout=120, mem_gb=1,
           **dict(common, unwindset=dict(common["unwindset"], **{"vsnprintf.0": 8}))),
    ] if os.environ.get("VERIF_CANDIDATES") else []) + [
        Ob("write_stdio", func="h_c16_stdio",
           desc="vbi_export_stdio with the same exporter through the fwrite model: success <=> exporter ok and no short write; on success the "
                "stream holds exactly the reference bytes in order; on failure a prefix of them; export object left clean",
           encodes=["vbi_export_stdio", "write_fp", "fast_flush", "vbi_export_flush", "vbi_export_write", "vbi_export_putc", "vbi_export_puts",
                    "_vbi_export_grow_buffer_space"],
           bounds=ops + "; one injected fwrite fault at a symbolic call (short count symbolic)", outside="writes >= 4096 bytes (see write_big)",
           grid=k_full, quick_grid=k_quick, reach=["end", "success", "io_fault"], timeout=120, mem_gb=1, **common),
        Ob("write_file", func="h_c16_file",
           desc="vbi_export_file through the open/write/close/stat/unlink model: success <=> open ok, exporter ok, no write error (0-progress writes are "
                "retried up to 10 times), close ok; then the file holds exactly the reference bytes and is kept; otherwise the descriptor is closed exactly "
                "once, a regular file is unlinked exactly once, the bytes written are a prefix of the reference",
           encodes=["vbi_export_file", "write_fd", "xopen", "xclose", "fast_flush", "vbi_export_flush", "vbi_export_write", "vbi_export_putc",
                    "vbi_export_puts", "_vbi_export_grow_buffer_space"],
           bounds=ops + "; fault plan symbolic (EINTR x 0..11 on open, EACCES, one write fault of kind short/-1/0-progress x 0..12, close failure)",
           outside="EINTR on close; writes >= 4096 bytes (see write_big)",
           grid=k_full, quick_grid=k_quick, reach=["end", "success", "io_fault", "open_failed"], timeout=240, mem_gb=2, **common),
        Ob("write_big", func="h_c16_big",
           desc="unbuffered path: write(2 bytes), write(4096 bytes), write(2 bytes) to the stdio or file target (symbolic choice): the buffered 2 bytes reach "
                "the target first, then the block straight from the source, then the tail - 4100 bytes in order",
           encodes=["vbi_export_write", "fast_write", "fast_flush", "vbi_export_stdio", "vbi_export_file", "write_fp", "write_fd"],
           bounds="one fixed operation list; block content symbolic at its first two and last byte", reach=["end"], timeout=300, mem_gb=2,
           defines={"G_BIG": None}, **common),
    ]


def text_output():
    def us(pc, pr):
        return {"vbi_print_page_region.0": pc + 1, "vbi_print_page_region.1": pc + 1, "vbi_print_page_region.2": pc + 1,
                "vbi_print_page_region.3": pr + 1, "strcmp.0": 12, "iconv.0": 4, "iconv.1": 3, "iconv_open.0": 5}
    common = dict(harness="h_c16_txt.c", units=["src/export.c", "src/misc.c"], models=["c16_iconv.c", "c16_stubs.c"], unwind=24, vin_size=64,
                  stubs=["iconv_open/iconv/iconv_close = models/c16_iconv.c: UCS-2 (byte order symbolic) -> ASCII / ISO-8859-1 / UTF-8, E2BIG iff the next character "
                         "does not fit (nothing written), EILSEQ or (symbolic mode) '@' substitution for unrepresentable code points, never writes beyond *outbytesleft; "
                         "ISO-8859-1 -> UCS-2 for vbi_ucs2be(); other charsets: EINVAL",
                         "models/c16_stubs.c: export module classes (unreached)"])
    known = {}   # fixed in /repo (known_findings.json)
    t_full = [dict(CS=2, TSIZE=t) for t in range(0, 9)] + [dict(CS=3, TSIZE=t) for t in range(0, 21)] + [dict(CS=1, TSIZE=4), dict(CS=4, TSIZE=8)]
    t_quick = [dict(CS=2, TSIZE=t) for t in (0, 1, 4, 7, 8)] + [dict(CS=3, TSIZE=t) for t in (0, 3, 8, 13, 19)] + [dict(CS=4, TSIZE=8)]
    return [
        Ob("text_table", func="h_c16_txt_table", defines=dict(C16_HAVE_TEXT=1, PC=3, PR=2, **known), unwindset=us(3, 2),
           desc="vbi_print_page_region, table mode, on a 3x2 page of fully symbolic cells, region symbolic (documented width/height >= 1), buffer = exact-size object of "
                "TSIZE bytes: result == the region's characters row by row in the target charset (cells > DOUBLE_SIZE and unrepresentable code points -> space), "
                "rows separated by LF, return value == number of bytes == bytes written <= TSIZE; region outside the page or unknown charset -> 0; "
                "buffer too small -> 0 (STRICT only, see KNOWN_C16_E2BIG_AS_SPACE); iconv descriptor closed on every path; buf[TSIZE] never accessed",
           encodes=["vbi_print_page_region", "print_unicode", "vbi_ucs2be"],
           bounds="page 3 columns x 2 rows; TSIZE enumerated 0..needed+1 (needed symbolic per instance: <= 7 ISO-8859-1, <= 19 UTF-8); charsets of the model",
           assumes=[] if STRICT else ["KNOWN_C16_E2BIG_AS_SPACE (known finding): with a too small buffer and a multi-byte charset the function may return success with "
                                      "characters replaced by spaces; the assertion 'too small => 0' is dropped, 'length <= TSIZE' and the object bounds stay"],
           outside="real iconv and its charsets; rtl (ignored by the code); pages wider than 3 columns",
           grid=t_full, quick_grid=t_quick, reach=["end"], timeout=300, mem_gb=3, **common),
        Ob("text_flow", func="h_c16_txt_flow", defines=dict(C16_HAVE_TEXT=1, CS=2),
           desc="vbi_print_page_region, flow mode (table == FALSE), ISO-8859-1: return value <= TSIZE, buf[TSIZE] never accessed, every output character is a space "
                "or the character of a scanned cell, in scan order (subsequence); invalid region -> 0; iconv descriptor closed",
           encodes=["vbi_print_page_region", "print_unicode", "vbi_ucs2be"],
           bounds="page PC x PR = 2x2 (quick) and 3x2 cells, fully symbolic; TSIZE on the grid",
           outside="exact flow-mode layout (space collapsing rules) is not specified by the property and not asserted",
           grid=[dict(PC=2, PR=2, TSIZE=t) for t in range(0, 6)] + [dict(PC=3, PR=2, TSIZE=t) for t in (0, 2, 5, 7, 8)],
           quick_grid=[dict(PC=2, PR=2, TSIZE=t) for t in (2, 5)],
           unwindset=us(3, 2), reach=["end"], timeout=600, mem_gb=4, **common),
    ]


def rendering():
    known = {}   # fixed in /repo (known_findings.json)
    # the row loop of draw_char runs to `ch' which is 10/26 or half of it depending on the (symbolic) size attribute: symex cannot decide the exit
    # test and would unwind to the global bound; explicit bounds for every loop of the renderer (unwinding assertions prove them sufficient)
    gus = {"draw_char.4": 27, "draw_char.0": 17, "draw_char.1": 17, "draw_char.2": 33, "draw_char.3": 33,
           "draw_blank.0": 13, "draw_blank.1": 11, "unicode_wstfont2.0": 42, "unicode_ccfont2.0": 27,
           "vbi_draw_vt_page_region.2": 41, "vbi_draw_vt_page_region.3": 3, "vbi_draw_vt_page_region.4": 3,
           "vbi_draw_cc_page_region.2": 3, "vbi_draw_cc_page_region.3": 3}
    for k in range(8):
        gus["draw_drcs.%d" % k] = 13
    common = dict(harness="h_c16_gfx.c", func="h_c16_gfx", units=["src/export.c", "src/misc.c"], models=["c16_stubs.c"], unwind=3400, unwindset=gus, vin_size=320,
                  # after the last pixel row draw_char has advanced `src' by one more font row stride and `canvas' by one more rowstride: pointers beyond
                  # one-past-the-end that are never dereferenced (standard-level UB only, no sanitizer reports it).  CBMC treats the failed pointer-arithmetic
                  # check as fatal (everything behind it UNKNOWN), so these obligations run WITHOUT --pointer-overflow-check; every actual access is still
                  # checked (pointer dereference / array bounds checks are always on)
                  noflags=["--pointer-overflow-check"],
                  stubs=["font bitmaps wstfont2/ccfont2 and the DRCS bitmap filled with the constant byte FONTFILL (0x00 / 0xFF): glyph shapes are outside the claim, "
                         "a constant bitmap keeps the pen index of each pixel concrete (arbitrary bitmaps: no verdict in 280 s for one cell)",
                         "exp-gfx.c compiled without HAVE_LIBPNG (PNG export outside the claim)", "models/c16_stubs.c: export module classes (unreached)"],
                  assumes=["page invariants by construction: colour indices < 40, vbi_size <= DOUBLE_SIZE2, DRCS code points U+F000..F7FF with glyph < 48, "
                           "drcs[] NULL or 48x60 bytes, drcs_clut NULL or 64 entries < 40, drcs_clut_offs == 0; region inside the 3x2 page (caller's duty: "
                           "the functions do not validate)"] +
                          ([] if STRICT else ["KNOWN_C16_CUT_WIDE (known finding): the last cell of a region row is not DOUBLE_WIDTH/DOUBLE_SIZE/DOUBLE_SIZE2",
                                              "KNOWN_C16_ITALIC_CYRILLIC (known finding): cells U+0440..U+045F are not italic"]))
    # Measured (loaded machine): closed caption 1x1 PAL8 25 s; Teletext 1x1 PAL8 with the size attribute and DRCS-or-character fixed by the grid 150 s / 3.4 GB,
    # 2x1 DOUBLE_SIZE DRCS 224 s / 5.5 GB (10 M variables); all sizes at once: no verdict in 280 s.  VBI_PIXFMT_RGBA32_LE: the pen (a 256-byte union) is
    # read through a byte pointer cast to uint32_t*: closed caption 1x1 = 7.4 M variables / 300 s (cadical); Teletext 1x1: 12.7 GB after 130 s, no verdict
    # -> Teletext RGBA32 is NOT claimed (same address arithmetic with canvas_type 4 instead of 1).
    def vt(w, h, x, sizes, fills=(0,), drcs=(0, 1)):
        out = []
        for s0 in sizes:
            wide = s0 in (1, 3, 7)
            s1 = 4 if (wide and w == 2) else 0
            for d in drcs:
                for f in fills:
                    out.append(dict(CC=0, RW=w, RH=h, FMT=6, RSX=x, SIZE0=s0, SIZE1=s1, DRCS=d, FONTFILL=f))
        return out
    vt_full = vt(1, 1, 0, range(8)) + vt(1, 1, 5, (0, 2, 6)) + vt(2, 1, 0, range(8)) + vt(2, 1, 3, (1, 3, 7)) + vt(1, 2, -1, (0, 2, 3, 6)) + \
              [dict(CC=0, RW=1, RH=1, FMT=1, RSX=0), dict(CC=0, RW=2, RH=1, FMT=1, RSX=4)]
    vt_quick = [dict(CC=0, RW=1, RH=1, FMT=6, RSX=1, SIZE0=0, SIZE1=0, DRCS=0, FONTFILL=0), dict(CC=0, RW=1, RH=1, FMT=6, RSX=0, SIZE0=6, SIZE1=0, DRCS=1, FONTFILL=0),
                dict(CC=0, RW=1, RH=1, FMT=1, RSX=0),
                # a DOUBLE_WIDTH cell in the last (only) column of the region, rowstride without slack: 49 s / 2.5 GB measured; the reverse of fix 0296dad
                # (seeded/FIX-draw-region-wide-last-column) writes 12 pixels past the canvas here
                dict(CC=0, RW=1, RH=1, FMT=6, RSX=0, SIZE0=1, SIZE1=0, DRCS=0, FONTFILL=0)]
    cc_full = [dict(CC=1, RW=w, RH=1, FMT=6, RSX=x, FONTFILL=f) for w in (1, 2) for x in (0, 3, -1) for f in (0, 255)] + [dict(CC=1, RW=1, RH=1, FMT=1, RSX=0)]
    cc_quick = [dict(CC=1, RW=1, RH=1, FMT=6, RSX=0, FONTFILL=255), dict(CC=1, RW=2, RH=1, FMT=6, RSX=3, FONTFILL=0), dict(CC=1, RW=1, RH=1, FMT=1, RSX=0)]
    cc_rgba = [dict(CC=1, RW=1, RH=1, FMT=32, RSX=0, FONTFILL=0), dict(CC=1, RW=1, RH=1, FMT=32, RSX=4, FONTFILL=255)]
    text = ("into a canvas that is an exact-size object of the documented size rowstride x rows x cell height: every access inside canvas/page/font/pen objects, "
            "guard pixels between the pixel rows of the rectangle keep their (symbolic) fill value, unsupported pixel format (YUV420) leaves the canvas untouched, "
            "1x1 region with an ordinary character: every pixel is one of the cell's two colours")
    return [
        Ob("draw_vt_region", desc="vbi_draw_vt_page_region, RW x RH cells of a 3x2 page, cells/colour map/DRCS clut/reveal/flash symbolic, " + text,
           encodes=["vbi_draw_vt_page_region", "draw_char", "draw_drcs", "draw_blank", "unicode_wstfont2"], defines=dict(C16_HAVE_GFX=1, **known),
           bounds="regions 1x1, 2x1, 1x2 at page position (0,0); pixel formats PAL8 and YUV420 (unsupported); rowstride = rectangle width + {0,1,3,5} bytes or -1 (page "
                  "width); size attribute of the first/second cell and DRCS-or-character enumerated on the grid (all 8 sizes), everything else symbolic",
           outside="VBI_PIXFMT_RGBA32_LE for Teletext (no verdict: 12.7 GB / 130 s for one cell, see C16.py); 'same pixels as the full-page rendering' (only pen "
                   "colours per cell are checked); glyph shapes; regions larger than 2 cells",
           grid=vt_full, quick_grid=vt_quick, reach=["end"], timeout=900, mem_gb=6, **common),
        Ob("draw_cc_region", desc="vbi_draw_cc_page_region, RW x 1 cells at a symbolic position of a 3x2 page, cells and colour map symbolic, " + text,
           encodes=["vbi_draw_cc_page_region", "draw_char", "unicode_ccfont2"], defines=dict(C16_HAVE_GFX=1),
           bounds="regions 1x1, 2x1 (16x26 pixel cells); pixel formats PAL8, YUV420 (unsupported); rowstride = rectangle width + {0,3} bytes or -1",
           outside="glyph shapes; larger regions", grid=cc_full, quick_grid=cc_quick, reach=["end"], timeout=600, mem_gb=4, **common),
        Ob("draw_cc_region_rgba", desc="vbi_draw_cc_page_region, 1x1 cell, VBI_PIXFMT_RGBA32_LE (canvas = array of 32-bit pixels), " + text,
           encodes=["vbi_draw_cc_page_region", "draw_char", "unicode_ccfont2"], defines=dict(C16_HAVE_GFX=1), tier="thorough", solver="cadical",
           bounds="region 1x1; rowstride = 64 or 68 bytes", outside="2x1 regions in RGBA32", grid=cc_rgba, reach=["end", "plain_cell"],
           timeout=900, mem_gb=8, **common),
    ]


def obligations(tier, seed):
    return write_layer() + text_output() + rendering()
