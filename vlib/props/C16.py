"""C16 - export and rendering are faithful, bounded and independent of the output target (claimed PARTLY).

Three groups (DESIGN.md section 5, C16):
  1. write layer of export.c with an arbitrary exporter (harness/h_c16.c)
  2. bounded text output of exp-txt.c through an iconv model (harness/h_c16_txt.c)
  3. region rendering of exp-gfx.c into exact-size canvases (harness/h_c16_gfx.c)
Outside the claim: PNG (libpng), XPM/PPM/HTML whole-page byte identity, real iconv charsets, "same pixels as the
full-page rendering" beyond the cells drawn here.

VERIF_C16_STRICT=1 drops the KNOWN_* defines: the property is then stated as written and the affected obligations
come back refuted with a replayable counterexample (see the report / known findings).
"""
import os
from vlib.runner import Ob

STRICT = os.environ.get("VERIF_C16_STRICT") == "1"

NOPS, LMAX = 4, 6
RMAX = NOPS * LMAX

IO_STUBS = ["fwrite/clearerr/open/write/close/stat/unlink = models/c16_io.c (byte log, fault plan: short count, -1, "
            "0-progress writes, EINTR on open, close failure)",
            "vsnprintf/snprintf/strerror/dgettext (error message text) = empty string (CBMC only)",
            "models/c16_stubs.c: export module classes, vbi_init, _vbi_strndup_iconv (unreached)"]


def write_layer():
    common = dict(harness="h_c16.c", units=["src/misc.c"], models=["c16_io.c", "c16_stubs.c"],
                  defines={"NOPS": NOPS, "LMAX": LMAX}, unwind=RMAX + 2,
                  unwindset={"c16_append.0": 66, "write_fd.0": 13, "xopen.0": 12, "xclose.0": 12},
                  stubs=IO_STUBS + ["realloc/malloc/free = CBMC built-in models (fresh object per allocation, --no-malloc-may-fail)"],
                  vin_size=64)
    ops = ("arbitrary exporter = %d operations, each symbolically one of vbi_export_write(0..%d symbolic bytes), putc, puts(string <= %d / NULL), "
           "flush, grow-then-store-directly(0..%d bytes); symbolic return value" % (NOPS, LMAX, LMAX, LMAX))
    full = [dict(BUFSZ=b) for b in range(0, RMAX + 2)]
    quick = [dict(BUFSZ=b) for b in (0, 1, 2, 5, 6, 7, 12, 13, 23, 24, 25)]
    return [
        Ob("write_mem_alloc", func="h_c16_mem",
           desc="vbi_export_mem into an exact-size object of BUFSZ bytes, then vbi_export_alloc, same arbitrary exporter: mem returns the total size needed, "
                "the first min(BUFSZ,total) bytes equal the reference stream, buffer[BUFSZ] is never accessed (object bounds), alloc returns exactly "
                "the reference stream; export object left clean; exporter failure -> -1 / NULL with outputs untouched",
           encodes=["vbi_export_mem", "vbi_export_alloc", "_vbi_export_grow_buffer_space", "vbi_export_write", "vbi_export_putc",
                    "vbi_export_puts", "vbi_export_flush", "_vbi_grow_vector_capacity"],
           bounds=ops + "; total 0..%d symbolic; BUFSZ enumerated 0..%d (quick: 11 values) - every relation of BUFSZ to the size needed occurs "
                        "in every instance" % (RMAX, RMAX + 1),
           outside="vbi_export_printf/vprintf, puts_iconv; allocation failure; outputs >= 64 KiB (growth policy switch)",
           grid=full, quick_grid=quick, reach=["end", "too_small", "one_short"], timeout=300, mem_gb=3, **common),
        Ob("write_stdio", func="h_c16_stdio",
           desc="vbi_export_stdio with the same arbitrary exporter through the fwrite model: success <=> exporter ok and no short write; on success the "
                "stream holds exactly the reference bytes in order; on failure a prefix of them; export object left clean",
           encodes=["vbi_export_stdio", "write_fp", "fast_flush", "vbi_export_flush", "vbi_export_write", "vbi_export_putc", "vbi_export_puts",
                    "_vbi_export_grow_buffer_space"],
           bounds=ops + "; one injected fwrite fault at a symbolic call", outside="writes >= 4096 bytes (see write_big)",
           reach=["end", "success", "io_fault"], timeout=300, mem_gb=3, **common),
        Ob("write_file", func="h_c16_file",
           desc="vbi_export_file through the open/write/close/stat/unlink model: success <=> open ok, exporter ok, no write error (0-progress writes are "
                "retried up to 10 times), close ok; then the file holds exactly the reference bytes and is kept; otherwise the descriptor is closed exactly "
                "once, a regular file is unlinked exactly once, the bytes written are a prefix of the reference",
           encodes=["vbi_export_file", "write_fd", "xopen", "xclose", "fast_flush", "vbi_export_flush", "vbi_export_write", "vbi_export_putc",
                    "vbi_export_puts", "_vbi_export_grow_buffer_space"],
           bounds=ops + "; fault plan symbolic (EINTR x 0..11 on open, EACCES, one write fault of kind short/-1/0-progress x 0..12, close failure)",
           outside="EINTR on close; writes >= 4096 bytes (see write_big)",
           reach=["end", "success", "io_fault", "open_failed", "retried"], timeout=300, mem_gb=3, **common),
        Ob("write_big", func="h_c16_big",
           desc="unbuffered path: write(2 bytes), write(4096 bytes), write(2 bytes) to the stdio or file target (symbolic choice): the buffered 2 bytes reach "
                "the target first, then the block straight from the source, then the tail - 4100 bytes in order",
           encodes=["vbi_export_write", "fast_write", "fast_flush", "vbi_export_stdio", "vbi_export_file", "write_fp", "write_fd"],
           bounds="one fixed operation list; block content symbolic at its first two and last byte", reach=["end"], timeout=300, mem_gb=3, **common),
    ]


def obligations(tier, seed):
    return write_layer()
