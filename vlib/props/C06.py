import os
from vlib.runner import Ob

# sliced service ids (sliced.h)
TTX, TTX10, TTX25, VPS, WSS, CC, CCF1 = 3, 1, 2, 4, 0x400, 0x18, 0x8
BAD_F2, BAD_VPSF2, BAD_525 = 0x10, 0x1000, 0x20
ALL = "0xFFFFFFFFu"


def frame(ids, lines, **kw):
    d = dict(NL=len(ids), MASK=ALL)
    for k, (i, l) in enumerate(zip(ids, lines)):
        d["ID%d" % k] = "0x%x" % i
        d["L%d" % k] = l
    d.update(kw)
    return d


def obligations(tier, seed):
    U = ["src/hamm.c"]
    stubs = ["_vbi_global_log zero (as before vbi_set_log_fn), _vbi_log_printf empty (never reached: masks 0)",
             "_vbi_sampling_par_valid_log: asserted unreachable (no raw VBI/sampling parameters passed)"]
    loopmem = "memcpy/memmove/memset byte-loop models (models/c06_env.h, ENV_LOOP_MEM) so that constants propagate through block copies"
    # `p_end = p + mx->max_packet_size - 46` (dvb_mux.c generate_pes_packet) forms p + max_packet_size first, which is 46 bytes beyond the end of the
    # packet buffer (also with the real 65508 byte buffer and the default max size 65504) before 46 is subtracted: standard-level UB no compiler or
    # sanitizer distinguishes; CBMC treats it as fatal (later properties UNKNOWN), so the expression is parenthesised by a patch (PE) and reported as ub note
    common = dict(harness="h_c06.c", units=U)
    # ---- (a1) conformance, everything symbolic, independent parser only
    conf_q = [dict(NL=2, BUF=92, FIXED=1), dict(NL=2, BUF=52, FIXED=0)]
    conf_t = conf_q + [dict(NL=2, BUF=46, FIXED=1), dict(NL=3, BUF=92, FIXED=1), dict(NL=2, BUF=22, FIXED=0), dict(NL=2, BUF=6, FIXED=0),
                       dict(NL=2, BUF=21, FIXED=0), dict(NL=3, BUF=68, FIXED=0), dict(NL=3, BUF=67, FIXED=0)]
    # ---- (a2) round trip through the real demultiplexer: frame structure on the grid, payload symbolic
    rt_q = [
        frame([TTX, VPS, WSS], [7, 16, 23], BUF=68, FIXED=0, DI="0x99", STUFF=1),        # 46+16+5 = 67: one byte left -> stuffing byte appended
        frame([TTX, CC, WSS], [0, 21, 23], BUF=92, FIXED=1, DI="0x15", STUFF=1),         # third line does not fit
        frame([TTX10, TTX25, TTX], [22, 320, 0], BUF=138, FIXED=1, DI="0x10", STUFF=0),   # both fields + undefined line in field 2
        frame([VPS, CCF1, WSS], [16, 21, 23], BUF=64, FIXED=0, DI="0x9B", STUFF=1),      # 16+5+5 + stuffing unit
        frame([TTX, TTX, VPS], [7, 7, 16], BUF=138, FIXED=0, DI="0", STUFF=1),            # duplicate line: rejected at line 1
        frame([TTX, BAD_VPSF2, WSS], [335, 329, 23], BUF=138, FIXED=1, DI="0x1F", STUFF=1),  # unsupported service: rejected
        frame([WSS, TTX], [23, 336], BUF=51, FIXED=0, DI="0x99", STUFF=0, MASK="0x403u"),   # line 336 illegal for Teletext
        frame([CC, VPS, TTX], [21, 16, 320], BUF=92, FIXED=0, DI="0x99", STUFF=1, MASK="0x1Bu"),  # VPS masked out (otherwise wrong order)
    ]
    rt_t = list(rt_q)
    for l in (7, 8, 15, 21, 22, 320, 321, 334, 335, 0):
        rt_t.append(frame([TTX, TTX], [l, 0 if l == 0 else (l + 1 if l not in (22, 335) else 0)], BUF=93, FIXED=0, DI="0x99", STUFF=1))
    for l in (6, 23, 319, 336, 313, 31, 32, 1000):
        rt_t.append(frame([TTX], [l], BUF=46, FIXED=1, DI="0x10", STUFF=1))
    for (i, l) in ((VPS, 16), (VPS, 15), (VPS, 329), (VPS, 0), (WSS, 23), (WSS, 22), (WSS, 336), (CC, 21), (CC, 22), (CCF1, 21), (CC, 334),
                   (BAD_F2, 21), (BAD_525, 21), (0, 7), (TTX | VPS, 16)):
        rt_t.append(frame([i, TTX], [l, 320], BUF=62, FIXED=0, DI="0x9A", STUFF=1))
        rt_t.append(frame([i], [l], BUF=46, FIXED=1, DI="0x11", STUFF=0))
    rt_t += [frame([TTX, VPS, CC, WSS, TTX], [7, 16, 21, 23, 320], BUF=b, FIXED=0, DI="0x99", STUFF=1) for b in (118, 119, 120, 121, 200, 376, 377)]
    rt_t += [frame([TTX, VPS, CC, WSS, TTX], [7, 16, 21, 23, 320], BUF=b, FIXED=1, DI="0x10", STUFF=s) for b in (184, 230, 276) for s in (0, 1)]
    # ---- (a3) one line, concrete service, symbolic line number: mux accepts => demux returns the same line
    one_q = [dict(NL=1, BUF=47, FIXED=0, ID0="0x%x" % i, MASK=ALL) for i in (TTX, VPS)]
    one_t = [dict(NL=1, BUF=b, FIXED=f, ID0="0x%x" % i, MASK=ALL) for i in (TTX, TTX10, VPS, WSS, CC, CCF1, BAD_F2) for (b, f) in ((47, 0), (46, 1))]
    # ---- (b) packets
    pk_q = [
        frame([TTX, VPS, CC, WSS], [7, 16, 21, 23], TS=1, PMIN=184, PMAX=368, FIXED=1, DI="0x10"),   # 4 x 46 > 138: two TS packets
        frame([TTX, TTX], [0, 335], TS=0, PMIN=184, PMAX=184, FIXED=0, DI="0x99"),
        frame([TTX, VPS, WSS], [320, 16, 23], TS=1, PMIN=184, PMAX=184, FIXED=1, DI="0x1F"),           # wrong order: rejected, nothing emitted
        frame([TTX, TTX, TTX, TTX], [7, 8, 9, 10], TS=0, PMIN=184, PMAX=184, FIXED=0, DI="0x9B"),      # too big for max size: rejected
        frame([VPS, WSS], [16, 23], TS=0, PMIN=368, PMAX=368, FIXED=0, DI="0x9A"),                      # minimum size 368: stuffing units 0xFF len 0xFF
        # frame boundary by an EQUAL line number (one-line-per-frame streams: the second frame is one Teletext line F2L)
        frame([TTX], [7], TS=0, PMIN=184, PMAX=184, FIXED=1, DI="0x10", F2L=7),
        frame([TTX, VPS, CC, TTX], [7, 16, 21, 22], TS=1, PMIN=184, PMAX=368, FIXED=1, DI="0x10", F2L=22),   # 2 TS packets (see ts_first_pes below)
    ]
    # Defect of the pinned tree, repaired by fix commit (dvb_demux.c demux_ts_packet, branch "Possible after resynchronization"): when the first PES
    # packet after TS synchronisation is exactly one TS packet long (184 bytes), its payload was copied with ts_pes_todo reaching 0 in that branch,
    # where the "PES packet is complete" test (only made on the `consume > 0` path) never ran; the next TS packet restarted at pes_buffer and the
    # first frame was lost.  Decided by this instance (e2e_one_frame_delivered), kept in the quick grid:
    ts_first_pes = [frame([TTX, TTX], [22, 320], TS=1, PMIN=184, PMAX=184, FIXED=0, DI="0x99", F2L=320)]
    pk_q = pk_q + ts_first_pes
    pk_eq_t = [frame([VPS], [16], TS=0, PMIN=184, PMAX=184, FIXED=1, DI="0x10", F2L=16)] + \
              [frame([TTX], [l], TS=0, PMIN=184, PMAX=184, FIXED=0, DI="0x99", F2L=l) for l in (22, 335)] + \
              [frame([TTX, TTX], [7, 0], TS=0, PMIN=184, PMAX=184, FIXED=0, DI="0x99", F2L=7)]      # undefined line last: boundary by line 7 <= 7
    pk_t = pk_q + [
        frame([TTX, VPS, CC, WSS, TTX, TTX, TTX], [7, 16, 21, 23, 320, 321, 0], TS=t, PMIN=184, PMAX=552, FIXED=f, DI=d)
        for t in (0, 1) for (f, d) in ((1, "0x10"), (0, "0x99"))
    ] + [frame([TTX, CC], [22, 21], TS=1, PMIN=184, PMAX=368, FIXED=0, DI="0x99"),
         frame([WSS], [23], TS=1, PMIN=368, PMAX=552, FIXED=1, DI="0x12")] + pk_eq_t
    bad_frames = [
        frame([TTX, TTX], [8, 7], FIXED=1, DI="0x10"),                   # descending
        frame([TTX, VPS, TTX], [7, 17, 320], FIXED=0, DI="0x99"),        # VPS on line 17
        frame([WSS, BAD_525], [23, 284], FIXED=1, DI="0x1F"),            # service the multiplexer cannot encode
        frame([TTX, TTX, TTX, TTX], [7, 8, 9, 10], FIXED=0, DI="0x9B"),  # 4 x 46 > 138: too big for 184
        frame([TTX, CC], [23, 21], FIXED=0, DI="0x99"),                  # Teletext on line 23
    ]
    rej_q = [dict(f, TS=t, PMIN=184, PMAX=184) for (f, t) in zip(bad_frames[:3], (1, 0, 1))]
    rej_t = [dict(f, TS=t, PMIN=184, PMAX=184) for f in bad_frames for t in (0, 1)]
    cor_frames = [frame([TTX, VPS, WSS], [7, 16, 23], FIXED=1, DI="0x10"), frame([CC, TTX], [21, 320], FIXED=0, DI="0x99"), bad_frames[0], bad_frames[3]]
    cor_q = [dict(cor_frames[0], TS=1, PMIN=184, PMAX=184, OBUF=50), dict(cor_frames[1], TS=0, PMIN=184, PMAX=184, OBUF=184),
             dict(cor_frames[2], TS=1, PMIN=184, PMAX=184, OBUF=64),
             # rejected for its SIZE (generate_pes_packet succeeds on a truncated packet), then a valid frame: both output modes
             dict(cor_frames[3], TS=1, PMIN=184, PMAX=184, OBUF=64), dict(cor_frames[3], TS=0, PMIN=184, PMAX=184, OBUF=100)]
    cor_t = cor_q + [dict(f, TS=t, PMIN=184, PMAX=184, OBUF=o) for f in cor_frames[:2] for t in (0, 1) for o in (1, 3, 187, 188, 189, 400)] \
                  + [dict(cor_frames[3], TS=t, PMIN=184, PMAX=184, OBUF=o) for t in (0, 1) for o in (1, 188, 400)]
    uw_rt = {"extract_data_units.8": 12, "encode_stuffing.0": 10, "memcpy.0": 1000, "memset.0": 1000, "memmove.0": 1000, "memmove.1": 1000}
    uw_pk = dict(uw_rt); uw_pk.update({"rec_cb.0": 600, "gather_pes.0": 600, "gather_pes.1": 600, "gather_pes.2": 600, "check_stuffing_tail.0": 300,
                                       "demux_pes_packet.1": 4, "demux_pes_packet.3": 12, "demux_pes_packet_frame.1": 3, "demux_ts_packet.0": 4,
                                       "demux_ts_packet.9": 16, "rdx_cb.0": 12})
    fs = ["--max-field-sensitivity-array-size", "1200"]
    fs_big = ["--max-field-sensitivity-array-size", "1600"]
    # reset_frame(): `if (f->rp > f->raw)` compares two NULL pointers when no raw buffer is attached (always, through the public API).  CBMC's pointer
    # check treats a relational comparison of NULL pointers as a fatal failure and reports every later property UNKNOWN.  The comparison is rewritten
    # to compare the addresses as integers (same result on every supported platform); recorded as a cut + ub_note in the report.
    PE = (r"p_end = p \+ mx->max_packet_size - 46;", "p_end = p + (mx->max_packet_size - 46);")
    RF = (r"if \(f->rp > f->raw\)", "if ((uintptr_t) f->rp > (uintptr_t) f->raw)")
    pk_desc = ("vbi_dvb_pes_mux_new/vbi_dvb_ts_mux_new + set_pes_packet_size + set_data_identifier + vbi_dvb_mux_feed with a recording callback; frame structure on the grid, "
               "symbolic 64-bit PTS, payload, data_identifier of the class: accepted iff every selected line is legal, ascending and the units fit max_packet_size-46; "
               "PES: 00 00 01 BD, PES_packet_length = size-6, size multiple of 184 in [min,max], '10' flags, data_alignment_indicator, PTS only (0x80), "
               "header_data_length 0x24, PTS '0010' prefix + 3 marker bits + 33 PTS bits in place, 31 stuffing bytes, data_identifier at byte 45, data units as in "
               "mux_sliced_conformance up to the end of the packet; TS: 188 byte packets, sync 0x47, no error/scrambling, payload only, PID, payload_unit_start only on "
               "the first, continuity counters consecutive within and across frames; rejected frame: no callback at all; a second valid frame is accepted afterwards; "
               "END TO END: all emitted bytes fed to the real vbi_dvb_demux_feed: frame 1 is delivered once, at the frame boundary, with PTS & (2^33-1), the same lines/services/"
               "line numbers/payload; frame 2 is pending with its own PTS")
    pk_enc = ["vbi_dvb_mux_feed", "generate_pes_packet", "encode_timestamp", "init_pes_packet_header", "generate_ts_packet_header",
              "vbi_dvb_pes_mux_new", "vbi_dvb_ts_mux_new", "vbi_dvb_mux_set_pes_packet_size", "vbi_dvb_mux_set_data_identifier",
              "vbi_dvb_demux_feed", "demux_pes_packet", "demux_pes_packet_frame", "valid_vbi_pes_packet_header", "decode_timestamp", "extract_data_units", "wrap_around"]
    pk_assumes = ["generate_pes_packet(): `p + mx->max_packet_size - 46` parenthesised as `p + (mx->max_packet_size - 46)` (patch; the intermediate pointer is out of bounds, see ub note)",
                  "reset_frame(): NULL > NULL pointer comparison rewritten to an integer comparison (patch), see ub note",
                  "R7/R2(e): multiplexer = directly constructed post-constructor state in a static object (zero + the fields the constructor sets + real "
                  "init_pes_packet_header) with an exact-size packet buffer of 4+max_packet_size bytes instead of 65508; mux_ctor decides that the real constructors "
                  "produce exactly this state",
                  "R7/R2(e): demux = static zero object + real vbi_dvb_demux_reset(); frame output array re-pointed to NL+2 lines"]
    pk_bounds = "frame structures/packet size limits/PID on the grid (184..552 bytes, 1..3 TS packets); two frames per run"
    pk_outside = "PES packets > 552 bytes; raw VBI lines; callback returning FALSE; symbolic PID in the end-to-end run (symbolic in mux_config)"
    return [
        Ob("mux_sliced_conformance", func="h_mux_sliced", defines={"G_SL": None}, unwind=51, unwindset={"encode_stuffing.0": 5, "check_stuffing_tail.0": 70},
           solver="cadical",
           desc="vbi_dvb_multiplex_sliced on NL fully symbolic vbi_sliced (id, line, 56 data bytes), symbolic service_mask, data_identifier (class on the grid), "
                "stuffing flag, into a BUF byte buffer: an independent EN 300 472/EN 301 775 parser finds exactly the selected lines, in order, as legal data units "
                "(id, length >= field, 0x2C in fixed-length mode, '11' + field parity + line_offset, framing code 0xE4, msb-first payload, WSS reserved '11', 0xFF stuffing "
                "bytes), no unit crosses the buffer, tail = stuffing units 0xFF only (stuffing=TRUE) or nothing; FALSE only for an illegal line and *sliced names it; "
                "stops early only if the next unit does not fit; bytes behind the output untouched; pointer/length outputs consistent",
           encodes=["vbi_dvb_multiplex_sliced", "insert_sliced_data_units", "encode_stuffing", "fixed_length_format"],
           bounds="NL = 2 lines (quick) / up to 3 (thorough), BUF on the grid; everything else symbolic",
           outside="frames of more than 3 lines with symbolic ids; raw (monochrome) data units",
           grid=conf_t, quick_grid=conf_q, reach=["end", "all_lines", "rejected"], timeout=600, mem_gb=3, vin_size=700, stubs=stubs, **common),
        Ob("mux_sliced_roundtrip", func="h_mux_sliced", unwind=51, unwindset=uw_rt, flags=fs, defines={"ENV_LOOP_MEM": 1, "G_SL": None},
           desc="same harness with the frame structure fixed by the grid (service ids, line numbers, mask, data_identifier, stuffing, buffer size; payload bytes "
                "and buffer pre-fill symbolic): the parser assertions above AND the real _vbi_dvb_demultiplex_sliced on the emitted bytes returns TRUE, the same number "
                "of lines, same service, same line number (including 0), same payload bits (Teletext 42, VPS 13, WSS 14 bits, CC 2 bytes), consumes all bytes",
           encodes=["vbi_dvb_multiplex_sliced", "_vbi_dvb_demultiplex_sliced", "extract_data_units", "line_address", "lofp_to_line", "vbi_rev8"],
           bounds="frame structures listed in the grid (8 quick, ~80 thorough incl. every service on legal/illegal lines, both fields, undefined line, "
                  "masked lines, 1-byte-left stuffing corner, buffers up to 377 bytes); all 2^(8*payload) payloads per structure",
           outside="structures not on the grid (measured: symbolic structure makes frame.sp symbolic: 2.3 M clauses per demux loop iteration, no verdict in 150 s)",
           grid=rt_t, quick_grid=rt_q, reach=["end"], timeout=300, mem_gb=3, vin_size=900, stubs=stubs + [loopmem], **common),
        Ob("mux_demux_line_agreement", func="h_mux_sliced", defines={"G_SL": None}, unwind=51, unwindset={"extract_data_units.8": 4, "encode_stuffing.0": 3},
           solver="cadical",
           desc="one line, service id from the grid, line number fully symbolic (2^32), payload, data_identifier, stuffing symbolic: whenever the multiplexer accepts "
                "the line the real demultiplexer accepts the unit and returns the same line number/service/payload (mux and demux agree on legal lines and their coding)",
           encodes=["vbi_dvb_multiplex_sliced", "_vbi_dvb_demultiplex_sliced", "line_address"],
           bounds="single-line frames", grid=one_t, quick_grid=one_q, reach=["end", "all_lines", "rejected"], timeout=600, mem_gb=4, vin_size=700,
           stubs=stubs, **common),
        Ob("mux_sliced_badsize", func="h_mux_sliced_badsize", defines={"G_SL": None}, unwind=66,
           desc="*packet_left < 2, or not a multiple of 46 with data_identifier 0x10..0x1F: FALSE, all arguments and the buffer unchanged",
           encodes=["vbi_dvb_multiplex_sliced"], bounds="none (all 2^32 sizes/data_identifiers)", timeout=120, vin_size=256, stubs=stubs, **common),
        Ob("mux_packets_pes", func="h_mux_packets", unwind=51, unwindset=uw_pk, flags=fs, defines={"ENV_LOOP_MEM": 1, "PIDV": "0x123", "G_PK": None},
           patch={"src/dvb_demux.c": [RF], "src/dvb_mux.c": [PE]},
           desc=pk_desc, encodes=pk_enc, assumes=pk_assumes + ["R2(e): demux pes_wrap.buffer re-pointed to an exact-size array of max_packet_size+8 bytes"],
           bounds=pk_bounds, outside=pk_outside, grid=[g for g in pk_t if g["TS"] == 0], quick_grid=[g for g in pk_q if g["TS"] == 0],
           reach=["end"], timeout=400, mem_gb=3, vin_size=900, stubs=stubs + [loopmem], **common),
        Ob("mux_packets_ts", func="h_mux_packets", unwind=51, unwindset=uw_pk, flags=fs,
           defines={"ENV_LOOP_MEM": 1, "PIDV": "0x1ABC", "SCALED_PES_BUFFER": 1, "PESCAP_SCALED": 576, "G_PK": None},
           patch={"src/dvb_demux.c": [(r"pes_buffer\[ALIGN \(6 \+ 65536\)\]", "pes_buffer[PESCAP_SCALED]"), RF], "src/dvb_mux.c": [PE]},
           desc=pk_desc + "  [TS mode]", encodes=pk_enc + ["demux_ts_packet"],
           assumes=pk_assumes + ["scaled unit: dvb_demux.c compiled with pes_buffer[576] instead of [65552] (PES packets here are <= 552 bytes; any access beyond is a bounds failure) "
                                 "- the TS demultiplexer addresses dx->pes_buffer directly and symex over the 64 KB array took ~40 s per Teletext unit"],
           bounds=pk_bounds, outside=pk_outside, grid=[g for g in pk_t if g["TS"] == 1], quick_grid=[g for g in pk_q if g["TS"] == 1],
           reach=["end"], timeout=400, mem_gb=3, vin_size=900, stubs=stubs + [loopmem], **common),
        Ob("mux_reject_state", func="h_mux_reject_state", unwind=51, unwindset=uw_pk, flags=fs, defines={"ENV_LOOP_MEM": 1, "PIDV": "0x1FFE", "G_MX": None}, patch={"src/dvb_mux.c": [PE]},
           desc="frames that are illegal or too big (structure on the grid: descending lines, VPS/Teletext on a wrong line, unsupported service, 4 Teletext lines into 184 bytes; "
                "payload, PTS, PID, data_identifier of the class, continuity counter symbolic): vbi_dvb_mux_feed returns FALSE, the callback is never called, every field of "
                "the multiplexer object (sizes, data_identifier, pid, continuity counter, coroutine cursors, callback, packet pointer) is unchanged",
           encodes=["vbi_dvb_mux_feed", "generate_pes_packet", "insert_sliced_data_units"],
           assumes=pk_assumes, bounds="bad frames on the grid", grid=rej_t, quick_grid=rej_q, reach=["end"], timeout=300, mem_gb=3, vin_size=700,
           stubs=stubs + [loopmem], **common),
        Ob("mux_cor_equals_feed", func="h_mux_cor_equiv", unwind=51, flags=fs, defines={"ENV_LOOP_MEM": 1, "PIDV": "0x10", "G_MX": None}, patch={"src/dvb_mux.c": [PE]},
           unwindset=dict(uw_pk, **{"h_mux_cor_equiv.%d" % k: 401 for k in range(2, 10)}),
           desc="the same frame (structure on the grid, payload/PTS/PID symbolic) through vbi_dvb_mux_feed (callback) and through vbi_dvb_mux_cor drained with an OBUF byte "
                "buffer: same verdict, same byte sequence, buffer pointer/left consistent, every call makes progress and fills the buffer unless the frame is finished; "
                "a rejected frame emits nothing and *sliced/*sliced_left name the remaining lines; HISTORY: after the first frame (accepted, rejected for its content or "
                "rejected for its size - grid) a second valid frame gives the same bytes through both interfaces (no stale coroutine state)",
           encodes=["vbi_dvb_mux_cor", "vbi_dvb_mux_feed", "generate_pes_packet", "generate_ts_packet_header"],
           assumes=pk_assumes, bounds="one PES packet of 184 bytes, OBUF on the grid (1..400 bytes)",
           outside="coroutine with PES packets > 184 bytes", grid=cor_t, quick_grid=cor_q, reach=["end"], timeout=300, mem_gb=3, vin_size=700,
           stubs=stubs + [loopmem], **common),
        Ob("demux_max_frame", func="h_demux_maxframe", unwind=51, flags=fs_big, defines={"ENV_LOOP_MEM": 1, "G_PK": None},
           unwindset=dict(uw_pk, **{"extract_data_units.8": 36}), patch={"src/dvb_demux.c": [RF], "src/dvb_mux.c": [PE]},
           desc="capacity of the real demultiplexer object (real vbi_dvb_demux_reset, its own frame array, nothing re-pointed): the biggest frame the multiplexer "
                "accepts - all 33 permitted lines 7..23/320..335 (Teletext, VPS 16, Caption 21, WSS 23), encoded by the real vbi_dvb_multiplex_sliced - is stored "
                "completely by demux_pes_packet_frame, is not delivered early, and is delivered exactly once with all 33 lines/services (payload of the first, the VPS "
                "and the last line compared) when the next packet starts a new frame (Teletext line F2L); the new frame's line is pending",
           encodes=["demux_pes_packet_frame", "extract_data_units", "line_address", "vbi_dvb_demux_reset", "reset_frame", "struct _vbi_dvb_demux.sliced"],
           assumes=["reset_frame(): NULL > NULL pointer comparison rewritten to an integer comparison (patch), see ub note",
                    "line structure and data_identifier concrete (the one maximal frame); payload of lines 0, 9, 32 and of the second frame symbolic"],
           bounds="the one maximal 33-line frame; data units handed to demux_pes_packet_frame directly (PES/TS layer: mux_packets_*)",
           outside="frames with more than 33 lines by repeated undefined (0) line numbers - the multiplexer accepts them, the 64 entry frame array cannot hold them",
           grid=[dict(F2L=7), dict(F2L=335)], quick_grid=[dict(F2L=335)], reach=["end", "maxframe"], timeout=300, mem_gb=3, vin_size=256,
           stubs=stubs + [loopmem], **common),
        Ob("mux_ctor", func="h_mux_ctor", unwind=51, unwindset={"memset.0": 1000}, defines={"ENV_LOOP_MEM": 1, "G_MX": None},
           desc="vbi_dvb_pes_mux_new / vbi_dvb_ts_mux_new(pid symbolic) return an object whose every field and initialised PES header bytes equal the directly constructed "
                "state used by the other mux obligations; NULL exactly for PIDs outside 0x10..0x1FFE",
           encodes=["vbi_dvb_pes_mux_new", "vbi_dvb_ts_mux_new", "init_pes_packet_header"], bounds="none", reach=["end", "constructed"],
           timeout=120, vin_size=64, stubs=stubs + [loopmem], **common),
        Ob("mux_config", func="h_mux_config", defines={"G_MX": None}, unwind=4,
           desc="documented defaults; set_pes_packet_size rounds min up / max down to multiples of 184 within 184..65504 and raises max to min; "
                "set_data_identifier accepts exactly 0x10..0x1F, 0x99..0x9B and keeps the old value otherwise; ts_mux_new accepts exactly PID 0x10..0x1FFE",
           encodes=["vbi_dvb_mux_set_pes_packet_size", "vbi_dvb_mux_set_data_identifier", "vbi_dvb_ts_mux_new", "vbi_dvb_pes_mux_new"],
           bounds="none (all 32-bit arguments)", timeout=120, vin_size=64, stubs=stubs, **common),
    ]
