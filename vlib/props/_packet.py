# obligations on src/packet.c leaf parsers, shared by C01 / C02 / C03
from vlib.runner import Ob

PK = dict(harness="h_packet.c", units=["src/hamm.c"], flags=["--no-undefined-shift-check"],   # zvbi shifts -1 left as error propagation (GNU C defined); cbmc turns everything behind that check UNKNOWN
         
          stubs=["struct caption carved out of vbi_decoder (include guard CC_H + dummy)", "vbi_send_event: log", "cache get/put/unref: stub",
                 "vbi_cni_table: empty", "8/30 + VPS decoders: stub FALSE", "_vbi_strlcpy: local copy"],
          unwindset={"bytes_eq.0": 5000, "zero_except.0": 5000, "put_ham8.0": 50, "put_ham24.0": 20, "flip.0": 50, "is_ham8.0": 20, "ref_unham8.0": 20, "ref_ham24.0": 30, "ref_ham24.1": 30, "ref_ham24.2": 30, "ref_ham24.3": 30,
                     "init_expand.0": 7, "init_expand.1": 65})


# R17: leaf parsers are compiled against a scratch copy of cache-priv.h in which the page union is a struct (see harness/h_packet.c)
CARVE = dict(patch={"src/cache-priv.h": [(r"(unsigned int\s+x28_designations;\s*\n\s*)union \{", r"\1struct {")]})
CARVE_STUB = "page union `data` of cache_page laid out as a struct in a scratch copy of cache-priv.h (cbmc union representation; sound for parsers using a single member; frame assertions cover the neighbouring members)"


def packet_obs():
    o = {}
    o["pagelink"] = Ob("pagelink_codec", func="h_pagelink", unwind=50, vin_size=64,
        desc="unham_page_link: a page link encoded by a reference encoder (EN 300 706 9.6.1, relative magazine bits) for every page/subcode/magazine decodes to "
             "itself; any single bit error gives the same link; two errors in one byte are rejected with the output untouched",
        encodes=["unham_page_link", "vbi_unham16p"], bounds="none: all links, all 48 error positions, all double errors within a byte", timeout=300, **PK)
    o["pagelink_any"] = Ob("pagelink_any", func="h_pagelink_untouched", unwind=50, vin_size=64, reach=["end", "rejected"],
        desc="unham_page_link on 6 arbitrary bytes: accepted iff every byte is within distance 1 of a code word; rejected => output untouched; accepted => pgno in 0x100..0x8FF, subno masked",
        encodes=["unham_page_link"], bounds="none", timeout=300, **PK)
    o["mot"] = Ob("parse_mot", func="h_mot", unwind=260, vin_size=64, reach=["end"],
        desc="parse_mot on an arbitrary 40-byte row, every packet number 0..31, arbitrary magazine state in an exact-size object: no access outside; a single bit error in any "
             "byte that was a code word leaves exactly the same magazine state as the clean row; EXACT result for the look-up tables (entry i stored at its page per EN 300 706 10.6 "
             "iff both nibbles correctable, nothing else written: catches writes that stay inside the struct)",
        encodes=["parse_mot", "vbi_unham8"], bounds="none within one packet; packet number enumerated by the runner (0..31 thorough; one per switch arm quick)",
        grid=[dict(PKTSEL=k) for k in range(0, 32)], quick_grid=[dict(PKTSEL=k) for k in (1, 8, 9, 14, 15, 19, 20, 21, 22, 23, 24)], timeout=600, mem_gb=4, **PK)
    o["pop"] = Ob("parse_pop", func="h_pop", unwind=50, vin_size=128, reach=["end", "clean"],
        desc="parse_pop on an arbitrary row, packet 1..26 (26 => designation added), arbitrary exact-size cache_page: no access outside (pointer table, triplet table); a single "
             "bit error in a clean byte/triplet gives the same return value and page state",
        encodes=["parse_pop", "vbi_unham24p", "vbi_unham8"], bounds="none within one packet; packet number enumerated by the runner (1..26 thorough; 1,2,3,4,5,25,26 quick)",
        grid=[dict(PKTSEL=k) for k in range(1, 27)], quick_grid=[dict(PKTSEL=k) for k in (1, 2, 3, 4, 5, 25, 26)], timeout=600, mem_gb=4, solver="cadical", **PK)
    o["x27"] = Ob("parse_27", func="h_27", unwind=50, vin_size=128, reach=["end", "clean"],
        desc="parse_27 on an arbitrary row and page state: no access outside link[36]; single bit error in a clean protected byte/triplet (bytes 0..37) => same result and state",
        encodes=["parse_27", "unham_page_link", "vbi_unham24p"], bounds="none within one packet; designation code enumerated by the runner (0..15 thorough; 0, 3, 4, 5, 6 quick)",
        grid=[dict(DESSEL=k) for k in range(16)], quick_grid=[dict(DESSEL=k) for k in (0, 3, 4, 5, 6)], timeout=900, mem_gb=6, **PK)
    o["x27_links"] = Ob("parse_27_links", func="h_27_links", unwind=50, vin_size=128,
        desc="X/27/0..3 produced by the reference link encoder for six arbitrary links: parse_27 stores exactly those page/subpage numbers at link[designation*6+i]; have_flof = link control bit",
        encodes=["parse_27", "unham_page_link"], bounds="none", timeout=600, mem_gb=6, **PK)
    o["ait"] = Ob("parse_ait", func="h_ait", unwind=50, vin_size=128,
        desc="parse_ait on an arbitrary row, packet 0..31, arbitrary page: no access outside title[46]; single bit error in a clean Hamming byte of either link => same state",
        encodes=["parse_ait", "unham_top_page_link"], bounds="none within one packet; packet number enumerated by the runner",
        grid=[dict(PKTSEL=k) for k in range(0, 32)], quick_grid=[dict(PKTSEL=k) for k in (0, 1, 23, 24)], timeout=600, mem_gb=4, **PK)
    o["lop_parity"] = Ob("lop_parity_gate", func="h_lop_parity", unwind=50, vin_size=2200, reach=["end", "badrow", "goodrow"],
        desc="lop_parity_check with 26 arbitrary received rows over an arbitrary cached page (no X/26): at row ROWSEL, a row with any even-parity byte (or not received) "
             "never replaces the cached row nor marks it received; a good row is copied byte-exactly; row 0 untouched",
        encodes=["lop_parity_check", "vbi_unpar8"], bounds="x26_designations == 0 (the X/26 parity work-around is outside this obligation); observed row enumerated by the runner (1..25 thorough; 1, 12, 24, 25 quick)",
        grid=[dict(ROWSEL=r) for r in range(1, 26)], quick_grid=[dict(ROWSEL=r) for r in (1, 12, 24, 25)], timeout=900, mem_gb=8, **PK)
    o["lop_parity_x26"] = Ob("lop_parity_gate_x26", func="h_lop_parity_x26", unwind=50, vin_size=256, reach=["end", "blocked", "taken"],
        desc="lop_parity_check with X/26 data (3 arbitrary triplets: row addressing, set active position, character triplets) on one received row: a byte with even parity lets the "
             "row through only at a position which an X/26 character triplet overrides (active row per EN 300 706 12.3: address-40, 0 = 24; mode 7 = row 0); anywhere else the "
             "cached row and the received-rows mask stay as they were; a row that is taken is copied byte-exactly outside overridden positions",
        encodes=["lop_parity_check", "vbi_par8", "vbi_unpar8"], bounds="3 enhancement triplets, one received row (enumerated: 1..25 thorough; 5, 24 quick)",
        grid=[dict(ROWSEL=r) for r in range(1, 26)], quick_grid=[dict(ROWSEL=5), dict(ROWSEL=24)], timeout=600, mem_gb=4, **PK)
    MG = [dict(MAGN=m) for m in range(8)]
    G28 = [dict(MAGN=1, DESSEL=d, PK2829=k) for d in (0, 1, 2, 3, 4, 5) for k in (28, 29)]
    # NOT REGISTERED by C01/C03 (kept for reference): parse_28_29 gave no verdict - default field sensitivity: 6.9 M steps / 555 s symex (writes to a
    # non-representative member of the 4.4 KB cache_page union are lowered to byte updates over ~4000 scalars); array-size 8 or nafs: 37 GB / 16 GB
    # in SSA->SAT conversion even with the network object cut to a 3.5 KB prefix.
    o["x2829"] = Ob("parse_28_29", func="h_2829", unwind=50, vin_size=1024, reach=["end", "clean"],
        desc="parse_28_29 on an arbitrary row for X/28 and M/29, arbitrary page function, arbitrary page/magazine extension: no access outside (bit stream reader, colour map, "
             "DRCS CLUT, mode[48]); of the network object only the magazine's default extension changes (single-error invariance of X/28 was built and dropped: two runs over the page union cost 37 GB)",
        encodes=["parse_28_29", "get_bits", "vbi_unham24p"], bounds="none within one packet; magazine 1 (network object cut to its prefix), designation code 0..5 and packet 28/29 enumerated by the runner",
        grid=G28, quick_grid=[dict(MAGN=1, DESSEL=0, PK2829=28), dict(MAGN=1, DESSEL=1, PK2829=29), dict(MAGN=1, DESSEL=3, PK2829=28), dict(MAGN=1, DESSEL=4, PK2829=29)],
        flags=["--no-undefined-shift-check", "--max-field-sensitivity-array-size", "8"],
        timeout=900, mem_gb=8, **{k: v for k, v in PK.items() if k != "flags"})
    o["btt"] = Ob("parse_btt", func="h_btt", unwind=50, vin_size=128,
        desc="parse_btt on an arbitrary row, every packet number: all accesses inside the network object (page statistics 0x100..0x8FF, BTT link table), links in range",
        encodes=["parse_btt", "unham_top_page_link", "cache_network_page_stat"], bounds="none within one packet; packet number enumerated",
        grid=[dict(PKTSEL=k) for k in range(0, 32)], quick_grid=[dict(PKTSEL=k) for k in (1, 10, 20, 21, 22, 23, 24)], timeout=600, mem_gb=4, **PK)
    o["mpt"] = Ob("parse_mpt", func="h_mpt", unwind=50, vin_size=256,
        desc="parse_mpt on an arbitrary row: page statistics index always inside 0x100..0x8FF (cache_network_page_stat's assert), no access outside",
        encodes=["parse_mpt"], bounds="none within one packet; packet number enumerated",
        grid=[dict(PKTSEL=k) for k in range(0, 32)], quick_grid=[dict(PKTSEL=k) for k in (1, 10, 20, 21)], timeout=600, mem_gb=4, **PK)
    o["mpt_ex"] = Ob("parse_mpt_ex", func="h_mpt_ex", unwind=50, vin_size=128,
        desc="parse_mpt_ex on an arbitrary row: only in-range pages touched, no access outside", encodes=["parse_mpt_ex", "unham_top_page_link"],
        bounds="none within one packet; packet number enumerated", grid=[dict(PKTSEL=k) for k in range(0, 32)], quick_grid=[dict(PKTSEL=k) for k in (1, 23, 24)], timeout=600, mem_gb=4, **PK)
    o["mip"] = Ob("parse_mip", func="h_mip", unwind=50, vin_size=1200,
        desc="parse_mip over a whole MIP page with arbitrary rows 1..25 and arbitrary received-rows mask: page statistics indices in range, sub-page table reads inside rows 15..25",
        encodes=["parse_mip", "parse_mip_page", "page_language"], bounds="magazine enumerated by the runner; cache lookup stubbed (returns NULL)",
        grid=MG, quick_grid=[dict(MAGN=0), dict(MAGN=5)], timeout=900, mem_gb=6, **PK)
    DR = [dict(DRCS_FREE_FROM=f, DRCS_HEAD_MODE=m) for (f, m) in ((40, 0), (44, 1), (44, 2), (42, 3), (36, 5), (46, 0))]
    o["drcs"] = Ob("convert_drcs", func="h_drcs", unwind=50, vin_size=1100,
        desc="convert_drcs on an exact-size cache_page with arbitrary rows and arbitrary received-rows mask; PTU modes concrete (one mode class) up to an index, arbitrary "
             "after it: every read inside raw[1..24], every write inside chars[48][60]",
        encodes=["convert_drcs", "init_expand"], bounds="mode vector = constant prefix + symbolic tail (grid of prefix mode/length); mixed strides in the prefix are outside",
        grid=DR, quick_grid=DR[:4], timeout=900, mem_gb=6, **PK)
    RG = [dict(MAGN=m, PKTN=p) for m in (1, 0) for p in list(range(1, 32))]
    o["rows"] = Ob("ttx_dispatch", func="h_ttx_rows", unwind=50, vin_size=128, reach=["end"],
        desc="vbi_decode_teletext for packets 1..31 of a magazine with the address bytes concrete (runner grid) and the 40 payload bytes, the page function of the page in "
             "progress (all 19 enum values) and the X/26 bookkeeping symbolic: every access inside the decoder/network objects; X/26 continuity: a designation that is "
             "uncorrectable or out of sequence stores nothing and marks the enhancement broken, an in-sequence one appends at most 13 triplets (<= 208)",
        encodes=["vbi_decode_teletext", "parse_mot", "parse_pop", "parse_btt", "parse_ait", "parse_mpt", "parse_mpt_ex", "parse_27", "parse_28_29", "parse_8_30"],
        bounds="one packet; magazine 1 and 8, every packet number (thorough) / one per class (quick); page data concrete zero (leaf parsers have their own obligations)",
        grid=RG, quick_grid=[dict(MAGN=1, PKTN=p) for p in (1, 25, 26, 27, 28, 29, 30, 31)], timeout=900, mem_gb=6, **PK)
    HG = [dict(MAGN=m, PAGEN=pg) for m in (1, 0, 4) for pg in ("0x23", "0x99", "0xAB", "0xFD", "0xFE", "0xF0", "0xE7")]
    o["header"] = Ob("ttx_header", func="h_ttx_header", unwind=50, vin_size=128, reach=["end", "sub_err", "clean"],
        desc="vbi_decode_teletext on a page header X/0 (no page in progress, cache miss) with the address and page number bytes concrete (runner grid) and the sub-code, "
             "control bytes and the remaining 32 bytes arbitrary: an uncorrectable sub-code or control byte marks the page DISCARD (never assembled, hence never stored "
             "under a sub-code that was not transmitted); otherwise the opened page carries exactly the transmitted page number, sub-code S1..S4, national option bits and "
             "control bits (reference: EN 300 706 9.3.1 from the nibbles of an independent Hamming decoder)",
        encodes=["vbi_decode_teletext (case 0)", "vbi_unham16p", "vbi_convert_page"], bounds="one header; magazine and page number enumerated by the runner; vt.current == NULL",
        grid=HG, quick_grid=[dict(MAGN=1, PAGEN="0x23"), dict(MAGN=0, PAGEN="0x99")], timeout=1200, mem_gb=6, **PK)
    o["header_timefill"] = Ob("ttx_header_time_filling", func="h_ttx_header", unwind=50, vin_size=128, reach=["end", "sub_err"],
        desc="time filling header (page number FF): never assembled, nothing stored", encodes=["vbi_decode_teletext (case 0)"], bounds="page FF of magazines 1 and 8",
        grid=[dict(MAGN=1, PAGEN="0xFF"), dict(MAGN=0, PAGEN="0xFF")], quick_grid=[dict(MAGN=1, PAGEN="0xFF")], timeout=600, mem_gb=4, **PK)
    o["header_badpage"] = Ob("ttx_header_pageno_error", func="h_ttx_header", unwind=50, vin_size=128, reach=["end", "pageno_err"],
        desc="page header whose page number byte is uncorrectable (two bit errors): nothing is stored, no event, the pages in progress are abandoned",
        encodes=["vbi_decode_teletext (case 0)", "vbi_teletext_desync"], bounds="error in the units or the tens byte (grid); rest of the header arbitrary",
        grid=[dict(MAGN=1, PAGEN="0x23", PAGEBAD=b) for b in (0, 1)], timeout=600, mem_gb=4, **PK)
    o["addr_error"] = Ob("ttx_addr_error", func="h_ttx_addr_error", unwind=50, vin_size=64,
        desc="a packet whose address bytes are uncorrectable is rejected and changes nothing (page in progress, X/26 bookkeeping, no cache store, no event)",
        encodes=["vbi_decode_teletext"], bounds="none", timeout=300, mem_gb=4, **PK)
    groups = {'pagelink': ['G_NONE'], 'pagelink_any': ['G_NONE'], 'mot': ['G_MAG'], 'pop': ['G_CP'], 'x27': ['G_CP'], 'x27_links': ['G_CP'], 'ait': ['G_CP'], 'lop_parity': ['G_CP', 'G_RP'], 'lop_parity_x26': ['G_CP', 'G_RP'], 'x2829': ['G_DEC', 'G_CP'], 'btt': ['G_DEC'], 'mpt': ['G_DEC'], 'mpt_ex': ['G_DEC'], 'mip': ['G_DEC', 'G_CP'], 'drcs': ['G_CPD'], 'rows': ['G_DEC'], 'header': ['G_DEC'], 'header_badpage': ['G_DEC'], 'addr_error': ['G_DEC', 'G_DECCOPY']}
    for k, gs in groups.items():
        for g in gs:
            o[k].defines[g] = None      # -DG_xxx: compile in only the static objects this obligation uses
    for k in ("pop", "x27", "x27_links", "ait", "lop_parity", "lop_parity_x26", "x2829", "mip", "drcs"):     # leaf parsers using one member of the page union
        o[k].patch = dict(CARVE["patch"]); o[k].defines["CARVE_PAGE_UNION"] = None; o[k].stubs = o[k].stubs + [CARVE_STUB]
        # with the members side by side the page has ~20 000 scalars: cbmc's field sensitivity walks all of them at EVERY access to the object
        # (field_sensitivityt::get_fields; 0.3 s per access).  Arrays longer than 8 elements stay arrays (rows, link and triplet tables): symex 17 s.
        if "--max-field-sensitivity-array-size" not in o[k].flags:
            o[k].flags = o[k].flags + ["--max-field-sensitivity-array-size", "8"]
    # (tried and dropped: the same flag on the decoder/network obligations - header 56 s -> no verdict in 1200 s, dispatcher and addr_error likewise)
    for k in ("pop", "x27", "ait"):
        o[k].unwind = 1100              # member-wise frame loops (508 triplets, 1040 row bytes); the parsers' own loops are <= 13 (unwinding assertions on)
    return o
