# Multi-packet page assembly through the real vbi_decode_teletext (harness/h_asm.c), shared by C02 / C03 / C01.
import re
from vlib.runner import Ob


# ---- the cut (R16/R17/R18 applied to the dispatcher; regenerated from the CURRENT source on every run) -------------------------------------
# (1) teletext_decoder.h: `struct raw_page raw_page[8]` becomes eight POINTERS to raw pages owned by the harness (separate objects of 5-7 KB instead of
#     one 52 KB decoder: every access to a field sensitive object costs symex time proportional to the scalars of the whole object, R18).  packet.c
#     addresses raw pages by index only (`vbi->vt.raw_page + mag0`, `vbi->vt.raw_page[i].page` in vbi_teletext_desync): both sites are rewritten.
# (2) cache-priv.h: the page union.  cbmc represents a union by its widest member and lowers every store to another member to a byte update over the
#     whole object (R17).  The Level One family - unknown, lop, enh_lop, ext_lop: identical prefixes of ONE layout {ttx_lop, enhancement, extension} -
#     becomes one struct `ext_lop`, the other families (pop, gpop, drcs, gdrcs, ait) keep their union next to it (`other`); packet.c's member names
#     are rewritten textually (data.unknown / data.lop -> data.ext_lop.lop, data.enh_lop -> data.ext_lop, data.pop -> data.other.pop ...).
#     Sound for executions in which every page is UNKNOWN / LOP / DISCARD (page functions are concrete in these obligations and asserted): the LOP
#     family overlays itself exactly as before; only the overlay LOP family <-> other families is lost, and X/28/3's explicit memmove still copies.
_LOPFAM = "struct { struct { struct ttx_lop lop; ttx_enhancement enh; struct ttx_extension ext; } ext_lop; union {"


def _cut_cache_priv(txt):
    m = re.search(r"(unsigned int\s+x28_designations;\s*\n\s*)union \{.*?\}\s*ext_lop;", txt, re.S)
    if not m:
        return txt + "\n#error asm cut: page union not found\n"
    txt = txt[:m.start()] + m.group(1) + _LOPFAM + txt[m.end():]
    txt, n = re.subn(r"\}\s*data;\s*\n(\s*\n\s*/\* Dynamic size)", r"} other; } data;\n\1", txt)
    if n != 1:
        return txt + "\n#error asm cut: end of page union not found\n"
    return txt


def _cut_packet(txt):
    n_tot = 0
    for pat, rep in ((r"\bdata\.(unknown|lop)\b", r"data.ext_lop.lop"), (r"\bdata\.enh_lop\b", r"data.ext_lop"),
                     (r"\bdata\.(drcs|gdrcs|pop|gpop|ait)\b", r"data.other.\1"),
                     (r"vbi->vt\.raw_page \+ mag0", r"vbi->vt.raw_page[mag0]"), (r"vbi->vt\.raw_page\[i\]\.page->", r"vbi->vt.raw_page[i]->page->")):
        txt, n = re.subn(pat, rep, txt)
        if n == 0:
            return txt + "\n#error asm cut: pattern %s not found\n" % pat.replace("\\", "")
        n_tot += n
    return txt


def _cut_ttx(txt):
    txt, n = re.subn(r"struct raw_page\s+raw_page\[8\];", "struct raw_page *\t\traw_page[8];", txt)
    return txt if n == 1 else txt + "\n#error asm cut: raw_page[8] not found\n"


ASM_CUT = {"src/cache-priv.h": _cut_cache_priv, "src/packet.c": _cut_packet, "src/teletext_decoder.h": _cut_ttx}
CUT_STUBS = [
    "cut: vbi_decoder.vt.raw_page[8] as eight pointers to harness-owned raw pages (the two magazines involved own one each, the other six share one); packet.c's two index expressions rewritten",
    "cut: page union of cache_page: Level One family (unknown/lop/enh_lop/ext_lop, identical prefixes) as ONE struct, other families in a union beside it; member names in packet.c rewritten textually; sound while every page function is UNKNOWN/LOP/DISCARD (concrete here)",
    "libc models (solver build only, R19): memcpy/memset/memmove as byte loops with concrete lengths; whole-sub-object copies (page data, page head + Level One part, link table fill) as typed assignments",
    "struct caption carved out of vbi_decoder (include guard CC_H + dummy)", "RECORDING cache stub: _vbi_cache_put_page logs page/sub-page number, function, received-rows mask and three rows and answers with a page; "
    "_vbi_cache_get_page answers with the hit/miss chosen by the grid; cache_page_size: full size", "vbi_send_event: logs TTX_PAGE page/sub-page numbers", "vbi_chsw_reset: counted",
    "vbi_cni_table: empty", "8/30 + VPS decoders: stub FALSE", "_vbi_strlcpy: local copy"]

BASE = dict(harness="h_asm.c", units=["src/hamm.c"], flags=["--no-undefined-shift-check"], patch=ASM_CUT, stubs=CUT_STUBS,
            unwindset={"memcpy.0": 4700, "memset.0": 4700, "memset.1": 40, "memmove.0": 4700, "memmove.1": 4700})


def asm_obs():
    return []
