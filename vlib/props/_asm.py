# Multi-packet page assembly through the real vbi_decode_teletext (harness/h_asm.c), shared by C02 / C03 / C01.
import re
from vlib.runner import Ob


# ---- the cut (R16/R17/R18 applied to the dispatcher; regenerated from the CURRENT source on every run) -------------------------------------
# (1) teletext_decoder.h: `struct raw_page raw_page[8]` becomes eight POINTERS to raw pages owned by the harness (separate objects of 5-7 KB instead of
#     one 52 KB decoder: every access to a field sensitive object costs symex time proportional to the scalars of the whole object, R18).  packet.c
#     addresses raw pages by index only (`vbi->vt.raw_page + mag0`, `vbi->vt.raw_page[i].page` in vbi_teletext_desync): both sites are rewritten.
# (2) cache-priv.h: the page union.  cbmc represents a union by its widest member and lowers every store to another member to a byte update over the
#     whole object (R17).  The Level One family - unknown, lop, enh_lop, ext_lop: identical prefixes of ONE layout {ttx_lop, enhancement, extension} -
#     becomes one struct `ext_lop`, the other families (pop, gpop, drcs, gdrcs, ait) keep their union next to it (`other`); packet.c's member names
#     are rewritten textually (data.unknown / data.lop -> data.ext_lop.lop, data.enh_lop -> data.ext_lop, data.pop -> data.other.pop ...).
#     Sound for executions in which every page is UNKNOWN / LOP / DISCARD (page functions are concrete in these obligations and asserted): the LOP
#     family overlays itself exactly as before; only the overlay LOP family <-> other families is lost, and X/28/3's explicit memmove still copies.
_LOPFAM = "struct { struct { struct ttx_lop lop; ttx_enhancement enh; struct ttx_extension ext; } ext_lop; union {"


def _cut_cache_priv(txt):
    m = re.search(r"(unsigned int\s+x28_designations;\s*\n\s*)union \{.*?\}\s*ext_lop;", txt, re.S)
    if not m:
        return txt + "\n#error asm cut: page union not found\n"
    txt = txt[:m.start()] + m.group(1) + _LOPFAM + txt[m.end():]
    txt, n = re.subn(r"\}\s*data;\s*\n(\s*\n\s*/\* Dynamic size)", r"} other; } data;\n\1", txt)
    if n != 1:
        return txt + "\n#error asm cut: end of page union not found\n"
    # (4) page statistics: cache_network._pages[0x800] is an array cbmc does not expand; after the first store into it (store_lop records page type and
    #     sub-code) no entry constant-folds any more and the page-type switch of the next header explores every page function (vbi_convert_page to POP,
    #     DRCS, AIT ...).  The accessor hands out harness-owned entries: one per page number that occurs, a shared one (access counted, asserted 0) else.
    txt, n = re.subn(r"return &cn->_pages\[pgno - 0x100\];", "return asm_page_stat((cache_network *) cn, pgno);", txt)
    if n != 2:
        return txt + "\n#error asm cut: page statistics accessors not found\n"
    txt, n = re.subn(r"(/\*\* @internal \*/\s*_vbi_inline struct ttx_magazine \*\s*cache_network_magazine)", r"extern struct ttx_page_stat *asm_page_stat(cache_network *cn, vbi_pgno pgno);\n\1", txt)
    if n != 1:
        return txt + "\n#error asm cut: place for the accessor prototype not found\n"
    return txt


def _cut_packet(txt):
    n_tot = 0
    for pat, rep in ((r"\bdata\.(unknown|lop)\b", r"data.ext_lop.lop"), (r"\bdata\.enh_lop\b", r"data.ext_lop"),
                     (r"\bdata\.(drcs|gdrcs|pop|gpop|ait)\b", r"data.other.\1"),
                     (r"vbi->vt\.raw_page \+ mag0", r"vbi->vt.raw_page[mag0]"), (r"vbi->vt\.raw_page\[i\]\.page->", r"vbi->vt.raw_page[i]->page->")):
        txt, n = re.subn(pat, rep, txt)
        if n == 0:
            return txt + "\n#error asm cut: pattern %s not found\n" % pat.replace("\\", "")
        n_tot += n
    return txt


def _cut_ttx(txt):
    txt, n = re.subn(r"struct raw_page\s+raw_page\[8\];", "struct raw_page *\t\traw_page[8];", txt)
    return txt if n == 1 else txt + "\n#error asm cut: raw_page[8] not found\n"


def _cut_event(txt):
    # (3) event.h: the union `ev` of vbi_event as a struct.  store_lop builds its event in a local: `event.ev.ttx_page.roll_header` written to a union
    #     member is read back as a byte extract that does not fold, and the channel switch heuristic (same_header(), pointers with symbolic offsets)
    #     is explored although the control bits exclude it.  No code in packet.c reads a member of `ev` other than the one it wrote.
    txt, n = re.subn(r"(typedef struct vbi_event \{\s*int\s+type;\s*)union \{", r"\1struct {", txt)
    return txt if n == 1 else txt + "\n#error asm cut: vbi_event union not found\n"


ASM_CUT = {"src/cache-priv.h": _cut_cache_priv, "src/packet.c": _cut_packet, "src/teletext_decoder.h": _cut_ttx, "src/event.h": _cut_event}
CUT_STUBS = [
    "cut: vbi_decoder.vt.raw_page[8] as eight pointers to harness-owned raw pages (the two magazines involved own one each, the other six share one); packet.c's two index expressions rewritten",
    "cut: page union of cache_page: Level One family (unknown/lop/enh_lop/ext_lop, identical prefixes) as ONE struct, other families in a union beside it; member names in packet.c rewritten textually; sound while every page function is UNKNOWN/LOP/DISCARD (concrete here)",
    "cut: cache_network_page_stat() hands out harness-owned statistics entries, one per page number that occurs in the scenario (any other access is counted and asserted absent)",
    "cut: union `ev` of vbi_event as a struct (no member is read other than the one written)",
    "libc models (solver build only, R19): memcpy/memset/memmove as byte loops with concrete lengths; whole-sub-object copies (page data, page head + Level One part, link table fill) as typed assignments",
    "struct caption carved out of vbi_decoder (include guard CC_H + dummy)", "RECORDING cache stub: _vbi_cache_put_page logs page/sub-page number, function, received-rows mask and three rows and answers with a page; "
    "_vbi_cache_get_page answers with the hit/miss chosen by the grid; cache_page_size: full size", "vbi_send_event: logs TTX_PAGE page/sub-page numbers", "vbi_chsw_reset: counted",
    "vbi_cni_table: empty", "8/30 + VPS decoders: stub FALSE", "_vbi_strlcpy: local copy"]

BASE = dict(harness="h_asm.c", units=["src/hamm.c"], flags=["--no-undefined-shift-check"], patch=ASM_CUT, stubs=CUT_STUBS,
            unwindset={"memcpy.0": 4700, "memset.0": 40, "memset.1": 4700, "same_header.0": 26, "memmove.0": 4700, "memmove.1": 4700})


def _g(m1=1, p1=0x70, m2=1, p2=0x71, ser=0, era1=0, era2=0, hit2=0, q=0, qp=0x33, h3=0, p3=0x75, **kw):
    d = dict(AM1=m1, AP1="0x%02x" % p1, AM2=m2, AP2="0x%02x" % p2, ASER=ser, AERA1=era1, AERA2=era2, AHIT2=hit2, AQ=q, AQP="0x%02x" % qp, AH3=h3, AP3="0x%02x" % p3)
    d.update(kw)
    return d


def term_grid():
    quick = [
        _g(),                                                    # parallel, own magazine, next page: terminated now
        _g(ser=1, hit2=1, h3=1),                                 # serial, own magazine, next page, then a further header
        _g(p2=0x70, hit2=1, h3=1),                               # own magazine, same number, no erase: not terminated; the next different header stores it once
        _g(m2=2, p2=0x70, h3=1),                                 # parallel, other magazine (same tens/units): untouched, stored by its own magazine's next header
        _g(m2=2, p2=0x70, q=1, h3=1),                            # ... with a page in progress in the other magazine, which that header terminates
        _g(m2=2, p2=0x70, ser=1, hit2=1, h3=1),                  # serial, other magazine, same tens/units, H's page cached: completed early, never twice
        _g(m2=2, p2=0x59, ser=1, era2=1, h3=1),                  # serial, other magazine, H erases: completed early, not again by its own magazine
        _g(m2=2, p2=0x59, ser=1, hit2=0, h3=1),                  # serial, other magazine, H's page new to the cache
        _g(m2=2, p2=0x59, ser=1, era1=1, era2=1, h3=1),          # serial, P carries C4: completed by its own magazine's next header at the latest
        _g(m2=2, p2=0x59, ser=1, era1=1, hit2=1, h3=1),          # serial, P carries C4, H's page cached without C4 (serial open page dropped: defect of the pinned tree, repaired)
        _g(m2=2, p2=0x59, ser=1, hit2=1, q=1, h3=1),             # serial, a page with C4 open in H's magazine (serial open page dropped: defect of the pinned tree, repaired)
        _g(m1=8, p1=0x99, m2=1, p2=0x99, ser=1, hit2=1, h3=1, p3=0x00),   # magazine 8 (index 0) -> magazine 1
    ]
    full = list(quick)
    for (m1, p1, m2, p2, p3) in ((1, 0x70, 1, 0x71, 0x75), (1, 0x70, 1, 0x70, 0x75), (1, 0x70, 2, 0x70, 0x75), (1, 0x70, 2, 0x59, 0x75), (8, 0x99, 1, 0x99, 0x00), (2, 0x34, 8, 0x35, 0x33)):
        for ser in (0, 1):
            for era1 in (0, 1):
                for era2, hit2 in ((0, 1), (0, 0), (1, 0)):
                    for q in ((0, 1, 2) if m2 != m1 else (0,)):
                        for got in (1, 0):
                            x = _g(m1, p1, m2, p2, ser, era1, era2, hit2, q, 0x33, 1, p3)
                            if not got:
                                x["AGOT"] = 0
                            if x not in full:
                                full.append(x)
    return full, quick


def asm_obs():
    full, quick = term_grid()
    o = []
    o.append(Ob("asm_header_terminates", func="h_asm_term", unwind=50, vin_size=256, defines={"H_TERM": None}, reach=["end"],
        desc="vbi_decode_teletext over a packet SEQUENCE: a page P (LOP, sub-page number symbolic) is in progress in magazine M1 = vt.current with one row kept from "
             "an earlier transmission; a row packet X/7 of M1 (payload symbolic) is decoded; then a header H of magazine M2 / page P2 (32 display bytes symbolic; cache "
             "answers hit or miss) and a header H3 of M1 with another page number.  Own magazine, different number: P handed to the cache exactly once AT H under its "
             "page and sub-page number with the received row (iff parity good) and the kept row, exactly one TTX_PAGE event with those numbers, new page opened.  "
             "Own magazine, same number, no erase: not terminated.  Other magazine, parallel mode: P untouched (function, numbers, flags, rows), nothing of P "
             "stored; a page Q in progress in M2 is stored exactly once.  Other magazine, serial mode: P may be completed at H, and after H3 - the next header of "
             "its own magazine, the latest point the property allows - it has been stored EXACTLY once with exactly one event; the page H opened in M2 is either "
             "still in progress or was completed exactly once (not lost).  No channel switch is signalled",
        encodes=["vbi_decode_teletext (case 0, case 1..25)", "store_lop", "lop_parity_check", "vbi_convert_page"],
        bounds="3 packets (row, header, header); magazines, page numbers, C11 serial, C4 erase of P / Q / H, the cache's answer for H and whether the row arrives are the runner grid "
               "(quick: 12 scenarios; thorough: 6 magazine/page constellations x serial x erase x hit/miss x Q x row = ~300); every control bit is a grid constant (C7 suppress "
               "header set: store_lop's channel switch heuristic is not entered); sub-codes of the headers concrete; P's sub-page number, the row payloads and header text symbolic",
        outside="the cache itself (C10, cache_put_put_get), the channel switch heuristic of store_lop (same_header), pages of other functions than LOP, X/26..X/28 between "
                "the headers (asm_x26_triplet_error, ttx_dispatch), more than two following headers",
        grid=full, quick_grid=quick, timeout=300, mem_gb=3, **BASE))
    # the defect demonstration (NOT part of asm_obs(): refuted on the unchanged tree) is asm_defect_obs() below
    PG = [dict(AM1=1, AP1="0x70", AM2=2, AP2="0x71", AQ=q, AQP="0x33", ASER=ser, AERA1=e1, ABADBYTE=b, ABADMASK=m, ABADDIGIT=dg)
          for (ser, q, e1) in ((0, 2, 0), (0, 1, 1), (1, 2, 0), (1, 1, 1)) for (b, m, dg) in ((0, "0x41", 3), (1, "0x41", 7), (0, "0x03", 0), (1, "0x88", 9))]
    PGX = [dict(g, AMH=3) for g in PG[:4]] + [dict(g, AM1=8, AM2=1, AMH=1) for g in PG[:2]]
    o.append(Ob("asm_header_pageno_error", func="h_asm_pageno_error", unwind=50, vin_size=256, defines={"H_PGERR": None}, reach=["end"],
        desc="C03 'an uncorrectable header only abandons the pages in progress': two pages in progress (P in magazine M1 = vt.current, Q in magazine M2, a row received "
             "each, sub-page numbers symbolic); a header whose page number byte is uncorrectable (two bit errors; every other byte of the packet symbolic) is rejected, "
             "stores nothing, raises no event and marks the page in progress of EVERY magazine abandoned; a following row packet and the next good header of M2 "
             "store nothing either (the abandoned page never reaches the cache with foreign rows)",
        encodes=["vbi_decode_teletext (case 0, case 1..25)", "vbi_teletext_desync"],
        bounds="3 packets (damaged header, row, good header); the damaged byte (units / tens), its error pattern, the other digit (5), the magazine of the damaged header (Q's, a third one), serial / parallel and "
               "C4 of the pages in progress on the runner grid; control bits grid constants",
        outside="errors in the sub-code / control bytes (ttx_header: hdr_subcode_or_control_error_discards), in the address bytes (ttx_addr_error)",
        grid=PG + PGX, quick_grid=[PG[0], PG[5], PG[10], PG[15], PGX[0]], timeout=300, mem_gb=3, **BASE))
    X26 = [dict(ADES=d) for d in (0, 1, 5, 13)]
    o.append(Ob("asm_x26_triplet_error", func="h_asm_x26", unwind=50, vin_size=256, defines={"H_X26": None}, reach=["end", "bad_triplet", "all_good"],
        desc="C03 / X/26 through the dispatcher, two packets: X/26/d (13 symbolic triplets) on a Level One page in progress whose enhancement is in sequence, then "
             "X/26/d+1.  With f = the first triplet vbi_unham24p rejects (symbolic place, or none): triplets before f are stored in their slots d*13+k with address / "
             "mode / data of the decoded word, NO slot from f on is written (it keeps the 0xFF terminator the header path left there), the triplet count stops "
             "at d*13+f, nothing outside the packet's 13 slots changes; after an error the next packet is out of sequence: rejected, stores nothing, enhancement "
             "marked broken (-1); without an error it is accepted",
        encodes=["vbi_decode_teletext (case 26)"],
        bounds="designation d on the grid (0, 1, 5, 13); page function LOP; which triplets are correctable is vbi_unham24p's own verdict (decided against the standard by C03 ham24*)",
        outside="consumers of the enhancement (lop_parity_gate_x26, the formatter)", grid=X26, quick_grid=X26[:2], timeout=300, mem_gb=3, **BASE))
    X28a = [dict(ADES28=d) for d in (2, 3, 5, 6, 15, 1)]
    o.append(Ob("asm_x28_designations", func="h_asm_x28", unwind=50, vin_size=256, defines={"H_X28": None}, reach=["end"],
        desc="C01 / X/28 through the dispatcher on a Level One page in progress (payload symbolic, x28_designations before: any subset of 0x13): the bookkeeping only "
             "records designations whose extension was taken - X/28/2, /3, /5.. leave it unchanged, X/28/1 sets bit 1 and marks the extension; no bit outside 0x13 "
             "(cache_page_size() sizes the cached page by x28_designations & 0x13, page_language() reads the extension for ANY non-zero value)",
        encodes=["vbi_decode_teletext (case 28)", "parse_28_29"], bounds="designation on the grid (1, 2, 3, 5, 6, 15); page function LOP",
        outside="M/29; pages of other functions", grid=X28a, quick_grid=[dict(ADES28=d) for d in (2, 3, 15, 1)], timeout=300, mem_gb=3, **BASE))
    X28b = [dict(ADES28=0), dict(ADES28=4), dict(ADES28=0, AX28FN=2), dict(ADES28=4, AX28FN=3), dict(ADES28=0, AX28FN=0)]
    o.append(Ob("asm_x28_rejected_not_recorded", func="h_asm_x28", unwind=50, vin_size=256, defines={"H_X28": None}, reach=["end"],
        desc="C01 / X/28/0 and X/28/4 through the dispatcher (13 symbolic triplets): a packet that announces another page function than LOP is rejected and NOT recorded "
             "in x28_designations; whenever the bit is recorded the extension carries the designation too",
        encodes=["vbi_decode_teletext (case 28)", "parse_28_29", "get_bits"], bounds="designation 0 / 4; first triplet symbolic or its function field on the grid; page function LOP",
        grid=X28b, quick_grid=X28b[:3], timeout=300, mem_gb=4, **BASE))
    return o


def asm_defect_obs():
    """the two constellations in which the unchanged tree loses a page in serial mode (known finding serial_open_page_dropped): same harness without the KNOWN_ guard"""
    g = [_g(m2=2, p2=0x59, ser=1, era1=1, hit2=1, h3=1), _g(m2=2, p2=0x59, ser=1, hit2=1, q=1, h3=1)]
    o = asm_obs()[0]
    return [Ob("asm_serial_open_page_dropped", func="h_asm_term", unwind=50, vin_size=256, defines={"H_TERM": None}, reach=["end"],
               desc="as asm_header_terminates without the KNOWN_serial_open_page_dropped guard: serial mode, a page with C4 (or new to the cache) open in magazine B, a cached page "
                    "without C4 transmitted in magazine A, then B's next header: B's page must have been stored by then (REFUTED on the unchanged tree: it is dropped)",
               encodes=o.encodes, bounds="two constellations", grid=g, timeout=300, mem_gb=3, **BASE)]


def asm_roll_obs():
    """NOT REGISTERED (no verdict): the channel switch heuristic of store_lop on a CONSISTENT header (harness h_asm_roll_header: template text, AKWIN symbolic characters in
    front of the page number, clocks symbolic).  Measured on the unchanged tree: symex 27 s, 907 VCCs, then no end of the propositional reduction in 280 s / 2.0 GB -
    same_header() advances `cur` / `ref` by 3 under a symbolic condition, every later read goes through a pointer with a symbolic offset into the 8 KB raw page and the
    decoder.  Candidate finding it was built for (from reading, reported by a seeding agent): same_header() takes the FIRST three characters equal to the page number
    digits for the page number; a header whose date / station name spells the page number in front of the real page number field compares the real digits against
    the reference header's, finds them different, and store_lop calls vbi_chsw_reset() (cache flush, page swallowed) for a network that did not change."""
    return [Ob("asm_consistent_header_no_channel_switch", func="h_asm_roll_header", unwind=50, vin_size=256, defines={"H_ROLL": None}, reach=["end"],
               desc="store_lop / same_header on a network with a consistent header: no channel switch signalled, page stored once", encodes=["store_lop", "same_header", "same_clock"],
               bounds="template header text, 4 symbolic characters before the page number", grid=[dict(AKPOS=24, AKWIN=4)], tier="thorough", timeout=900, mem_gb=8, **BASE)]
