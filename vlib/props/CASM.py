# scratch property: the assembly obligations of vlib/props/_asm.py on their own (wired into C02 / C03 / C01 by their owners).
# ASM_DEFECT=1 adds the demonstration of the known finding serial_open_page_dropped (refuted on the unchanged tree).
import os


def obligations(tier, seed):
    from vlib.props._asm import asm_obs, asm_defect_obs
    return asm_obs() + (asm_defect_obs() if os.environ.get("ASM_DEFECT") else [])
