from vlib.runner import Ob

# C14 - PIL -> time conversion, nearest-year inference, validity windows, TZ preservation (src/pdc.c)

STUBS = [
    "models/c14_time.c: time/gmtime_r/localtime_r/mktime/timegm = proleptic Gregorian calendar without leap seconds; forward function "
    "secs_from_civil closed form (multiply/shift/add only, linear in mday/h/min/s like mktime's normalisation); inverse RELATIONAL under CBMC "
    "(nondet fields + assume forward(fields)==t) plus ONE lemma instance: the instant a harness registered with m14_hint_civil has the registered "
    "fields (injectivity of the forward function, proved by m14_calendar_model's successor-day step; by the solver itself for 1999..2000 in "
    "m14_inverse_unique); tm_wday/tm_yday and mktime's normalised write-back left unconstrained (pdc.c never reads them); validated against glibc "
    "natively on every run (h_m14_selfcheck smoke: 2e5 random instants + all year/March boundaries + denormalised mday/hour as pdc.c uses them)",
    "models/c14_time.c: ghost log of every mktime call (fields passed, zone id in effect, secs_from_civil(fields)); the harness assertions compare the "
    "logged fields with the expected civil fields and the API result with logged_secs - zone offset",
    "models/c14_time.c: getenv/setenv/unsetenv/tzset = abstract TZ cell {unset, ambient 'AMB', 'UTC', named}; each id a fixed symbolic UTC offset; "
    "libc zone state `active` follows the cell only at tzset() and (POSIX) inside mktime(), NOT in localtime_r (glibc behaviour)",
    "models/c14_time.c: setenv('TZ', v != ambient) may fail nondeterministically (k-th call, symbolic mask) = change_tz failure; "
    "setenv('TZ', ambient) (restore) and unsetenv never fail (documented out-of-memory caveat of pdc.c)",
    "models/c14_time.c: mktime may fail nondeterministically (-1, EOVERFLOW; k-th call, symbolic mask); time() fails iff the symbolic clock value is -1",
    "models/c14_time.c: strdup = malloc(5)+bounded copy (CBMC only; native build uses real strdup/free under ASan with leak detection)",
]
ASSUMES = [
    "reference time given by canonical local civil fields of the zone under test, year in C14_Y0..C14_Y1 (see bounds); covers every instant of those years",
    "every zone is a FIXED offset (no DST transitions); |offset| <= C14_OFFMAX seconds for the tested zone, the ambient zone and the unset-TZ zone",
    "ambient TZ is either unset or the opaque string 'AMB'; the named tz argument is any string of <= 3 chars (incl. empty, containing '=') other than "
    "'UTC'/'AMB' in pil_to_time*, the fixed name 'NMD' in the window obligations (change_tz/restore_tz/localtime_tz are shared code)",
    "time_t is 64 bit (this platform): inside the year bounds no result is unrepresentable, so the EOVERFLOW exits are unreachable and not exercised",
    "PIL restricted to 20 bits",
]
OUTSIDE = ("real tzdata zones (DST gaps/overlaps, zone changes between start and PIL date); years outside the bound; 32-bit time_t overflow exits; "
           "start within |offset| of the epoch (see report: negative-offset check refuses representable times); seconds_east = INT_MIN (-seconds_east overflows); "
           "allocation failure (strdup/setenv in restore_tz); thread safety")

ENC_COMMON = ["vbi_pil_is_valid_date", "tm_mon_mday_from_pil", "tm_leap_day_check", "is_leap_year", "change_tz", "restore_tz", "_vbi_mktime", "_vbi_timegm"]


def _defs(y0, y1, offmax, extra=None):
    d = {"C14_Y0": y0, "C14_Y1": y1, "M14_YLO": y0 - 2, "M14_YHI": y1 + 2, "C14_OFFMAX": offmax}
    if extra:
        d.update(extra)
    return d


def obligations(tier, seed):
    # measured: cost does not depend on the range (no calendar inversion is left to the solver), so quick is already wide
    Q = (1971, 2105, 57600)      # quick: local years 1971..2105 (2000 leap, 2038, 2100 non-leap inside), |offset| <= 16 h
    T = (1971, 2420, 100000)     # thorough: ..2420 (2200, 2300 non-leap, 2400 leap), |offset| <= 27.7 h
    common = dict(harness="h_c14.c", models=["c14_time.c"], native_units=["src/misc.c"], units=[], stubs=STUBS,
                  assumes=ASSUMES, outside=OUTSIDE, vin_size=64, unwind=10)
    tzgrid = [{"TZMODE": 0}, {"TZMODE": 1}, {"TZMODE": 2}]
    obs = []

    obs.append(Ob("m14_calendar_model", func="h_m14_selfcheck",
                  desc="calendar model: anchors (1970-01-01, 2000-03-01, 2038-01-19, 1900-01-01, 2100-03-01), leap rule against %4/%100/%400, month lengths, "
                       "seconds stay inside their day; the NATIVE smoke run of this harness compares the model with glibc gmtime_r/timegm (2e5 random "
                       "instants, every year/March boundary, denormalised mday/hour as pdc.c passes them) and checks the multiply-shift /100 exhaustively",
                  encodes=[], defines={"M14_YLO": 1890, "M14_YHI": 2430}, bounds="years 1890..2430, every second", timeout=300, **common))
    obs.append(Ob("m14_successor_day", func="h_m14_successor_day",
                  desc="successor-day step: next day / first of next month / 1 Jan of next year is days_from_civil + 1 for every canonical date (with the anchors: "
                       "the forward function is right by induction and strictly monotone, hence injective - the lemma behind the model's hint)",
                  encodes=[], defines={"M14_YLO": 1890, "M14_YHI": 2430}, bounds="years 1890..2430, every day", timeout=300, **common))
    obs.append(Ob("m14_window_lemmas", func="h_m14_window_lemmas",
                  desc="differences of conversions within one month, as pdc.c relies on mktime's normalisation: (day+1 04:00) - (day 00:00) = 28 h, "
                       "(day+1 04:00) - (day-1 20:00) = 32 h, 00:00 <= day h:m < day+1 04:00, (day+29 04:00) - (day h:m:s) = 29 d + 4 h - second of day > 0; "
                       "with the logged mktime fields asserted in the window obligations this gives begin < end, the 28 h / 32 h lengths, containment of the "
                       "converted PIL and the PTY window length for the tz (mktime) paths",
                  encodes=[], defines={"M14_YLO": 1890, "M14_YHI": 2430}, grid=[{"C14_LEMMA": 1}, {"C14_LEMMA": 2}, {"C14_LEMMA": 3}],
                  bounds="years 1890..2430", timeout=300, **common))
    obs.append(Ob("m14_hint_consistency", func="h_m14_hint_consistency",
                  desc="the instant and the midnight registered by m14_hint_civil (what the harnesses build reference times from) equal the model's forward "
                       "function secs_from_civil of the same fields",
                  encodes=[], defines={"M14_YLO": 1890, "M14_YHI": 2430}, bounds="years 1890..2430, every second", timeout=300, **common))
    obs.append(Ob("m14_inverse_unique", func="h_m14_inverse_unique", tier="thorough",
                  desc="the relational inverse WITHOUT hint has exactly one solution (injectivity proved by the solver rather than by the monotonicity argument)",
                  encodes=[], defines={"M14_YLO": 1999, "M14_YHI": 2000}, bounds="years 1999..2000 (one common, one leap year), every second",
                  solver="cadical", timeout=900, **common))

    for tname, (y0, y1, om) in (("", Q), ("_wide", T)):
        tr = "quick" if tname == "" else "thorough"
        b = "PIL: all 2^20; start: every second of years %d..%d in the tested zone (or taken from time()); |offsets| <= %d s; ambient TZ unset/set; " \
            "setenv/mktime/time failure injection symbolic" % (y0, y1, om)
        obs.append(Ob("m14_six_month_lemma" + tname, func="h_m14_six_month_lemma", tier=tr,
                      desc="calendar corollary: month distance in [-6,+5] between canonical reference and PIL date => -215 d < t(PIL) - t(ref) < +184 d "
                           "(turns the nearest-year rule proved in *_to_time into the 'within about six months' wording of the property; both bounds are tight)",
                      encodes=[], defines={"M14_YLO": y0 - 2, "M14_YHI": y1 + 2}, bounds="years %d..%d" % (y0 - 1, y1 + 1), timeout=300, **common))
        obs.append(Ob("lto_to_time" + tname, func="h_lto_to_time", tier=tr,
                      desc="vbi_pil_lto_to_time: -1 iff PIL invalid / Feb 29 in non-leap inferred year / environment failure; otherwise result == civil(PIL fields, "
                           "year with month distance -6..+5 from start) - seconds_east (=> within (-215 d, +184 d) of start by m14_six_month_lemma); TZ cell and libc zone restored on every exit",
                      encodes=["vbi_pil_lto_to_time", "valid_pil_lto_to_time"] + ENC_COMMON, defines=_defs(y0, y1, om), bounds=b,
                      reach=["end", "ok", "feb29_ok", "feb29_refused", "other_year", "env_failure", "setenv_failed"],
                      timeout=300 if tr == "quick" else 1500, mem_gb=4, **common))
        obs.append(Ob("pil_to_time" + tname, func="h_pil_to_time", tier=tr, grid=tzgrid,
                      desc="vbi_pil_to_time with tz = NULL / \"UTC\" / named zone: same contract as lto_to_time with the zone's offset; tz NULL never touches the environment; "
                           "TZ cell and libc zone restored on every exit (incl. time(), setenv, mktime failures)",
                      encodes=["vbi_pil_to_time", "localtime_tz", "valid_pil_lto_to_time"] + ENC_COMMON,
                      defines=_defs(y0, y1, om, {"C14_TZ_SYMBOLIC": 1}), bounds=b + "; named tz = any string of <= 3 chars except UTC/AMB",
                      reach=["end", "ok", "feb29_ok", "feb29_refused", "other_year", "env_failure"],
                      timeout=300 if tr == "quick" else 1500, mem_gb=4, **common))
        obs.append(Ob("pty_window" + tname, func="h_pty_window", tier=tr, grid=tzgrid,
                      desc="vbi_pty_validity_window: success => begin == last_transm, end == 04:00 local of day+29 (begin < end: asserted for UTC, by m14_window_lemmas "
                           "for the mktime path); failure only on environment failure and "
                           "leaves *begin/*end unchanged; TZ restored on every exit",
                      encodes=["vbi_pty_validity_window", "pty_utc_validity_window", "localtime_tz"] + ENC_COMMON, defines=_defs(y0, y1, om), bounds=b,
                      reach=["end", "pty_ok"], timeout=300 if tr == "quick" else 1500, mem_gb=4, **common))
        for cname, cls, creach, cdesc in (
                ("_dated", 1, ["end", "win_feb29_indef", "win_28h", "win_32h", "win_env_failure"],
                 "dated PILs (month 1..12, day valid for the month): Feb 29 of a non-leap inferred year => [TIME_MIN, TIME_MAX]; otherwise begin = 00:00 local of "
                 "the PIL day in the nearest year (20:00 the day before if PIL hour < 4), end = 04:00 next day (UTC/lto path: asserted on the values incl. "
                 "length 28 h / 32 h, begin < end, begin <= converted PIL < end; tz path: asserted as the civil fields handed to mktime in the right zone and "
                 "begin/end = those conversions, lengths then by m14_window_lemmas); FALSE iff environment failure"),
                ("_codes", 2, ["end", "win_unalloc", "win_indef", "pty_ok"],
                 "all other codes per Annex F: month 0 / unallocated => FALSE; months 13/14, invalid days, TC/RIT/INT/CONT => [TIME_MIN, TIME_MAX]; "
                 "NSPV => PTY rule (begin = start, end = 04:00 of day+29)")):
            obs.append(Ob("lto_window" + cname + tname, func="h_lto_window", tier=tr,
                          desc="vbi_pil_lto_validity_window, " + cdesc + "; TZ restored on every exit",
                          encodes=["vbi_pil_lto_validity_window", "valid_pil_lto_validity_window", "valid_pil_lto_to_time", "pty_utc_validity_window"] + ENC_COMMON,
                          defines=_defs(y0, y1, om, {"C14_PILCLS": cls}), bounds=b, reach=creach,
                          timeout=300 if tr == "quick" else 1500, mem_gb=4, **common))
            obs.append(Ob("pil_window" + cname + tname, func="h_pil_window", tier=tr, grid=tzgrid,
                          desc="vbi_pil_validity_window with tz = NULL / \"UTC\" / named, " + cdesc + " in the zone of tz (NSPV => vbi_pty_validity_window); "
                               "TZ restored on every exit",
                          encodes=["vbi_pil_validity_window", "valid_pil_validity_window", "valid_pil_lto_validity_window", "vbi_pty_validity_window",
                                   "localtime_tz"] + ENC_COMMON,
                          defines=_defs(y0, y1, om, {"C14_PILCLS": cls}), bounds=b, reach=creach,
                          timeout=300 if tr == "quick" else 1500, mem_gb=4, **common))

    obs.append(Ob("lto_to_time_epoch_edge", func="h_lto_to_time_epoch",    # quick: measured 1.2 s / 60 MB
                 
                  desc="vbi_pil_lto_to_time with start in 1969..1970 (64-bit time_t: all results representable): conversion correct, negative results returned; "
                       "the region within the UTC offset of the epoch (seconds_east < 0 and start + seconds_east < 0; seconds_east > 0 and result < 0) was refused before the fix recorded in known_findings.json",
                  encodes=["vbi_pil_lto_to_time", "valid_pil_lto_to_time"] + ENC_COMMON,
                  defines=_defs(1969, 1970, 57600, {}),
                  bounds="PIL all 2^20; start every second of local years 1969..1970 (except start == -1); |seconds_east| <= 16 h",
                  reach=["end", "epoch_refused_region", "negative_result_ok"], timeout=900, **common))
    obs.append(Ob("pil_window_mktime_failure_exit", func="h_pil_window_mktime_fails", grid=[{"TZMODE": 0}, {"TZMODE": 2}],
                  desc="valid_pil_validity_window (static) when the 1st or 2nd mktime fails: returns FALSE after the first failure, TZ restored; "
                       "errno == mktime's EOVERFLOW (saved_errno was read uninitialised there before the fix recorded in known_findings.json)",
                  encodes=["valid_pil_validity_window", "localtime_tz"] + ENC_COMMON,
                  defines=_defs(Q[0], Q[1], Q[2], {"C14_NATIVE_NOOPT": None}),   # native replay: pdc.c unoptimised + patterned stack (uninitialised read must replay)
                  bounds="valid PIL, years %d..%d, mktime failure forced on call 1 or 2" % (Q[0], Q[1]), timeout=300, **common))
    return obs
