from vlib.runner import Ob
from vlib.props._packet import packet_obs
from vlib.props._c02fmt import fmt_obs


def obligations(tier, seed):
    p = packet_obs()
    return [p[k] for k in ("pagelink", "x27_links", "lop_parity", "lop_parity_x26", "header")] + list(fmt_obs().values())
