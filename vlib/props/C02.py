from vlib.runner import Ob
from vlib.props._packet import packet_obs, PK
from vlib.props._c02fmt import fmt_obs


def asm_obs():
    """multi-packet assembly: termination of the page in progress by the following headers (harness/h_c02asm.c).
    NOT LISTED in obligations(): no verdict.  Measured: with vt.current != NULL every field of the page in progress is read through
    `curr = vbi->vt.current; vtp = curr->page` - a pointer into the 220 KB decoder whose target CBMC's value sets do not resolve to one raw_page[]
    element; vtp->function / flags / pgno then are non-constant for symex although the harness sets them to constants, so the dispatch
    `switch (vtp->function)` explores every arm (convert_drcs, parse_mip, store_lop with the channel switch heuristic same_header() over the symbolic
    header text ...): symex did not finish in 400 s (0.8 GB) with serial/erase/hit case-split on the grid and all control bits concrete; a
    semantics-preserving patch of the roll_header test only moved the stall to convert_drcs.  The seeded change C02-serial-header-same-tens-units is
    therefore NOT caught (class B).  A way forward: compile packet.c with a decoder whose raw_page[] is carved down to the two magazines involved, or
    factor the termination loop into a unit that takes the two raw pages as parameters."""
    kw = {k: v for k, v in PK.items() if k not in ("harness", "stubs")}
    def g(m1, p1, m2, p2, p3, ser=1, era1=0, era2=0, hit2=1):
        return dict(AM1=m1, AP1="0x%02x" % p1, AM2=m2, AP2="0x%02x" % p2, AP3="0x%02x" % p3, ASER1=ser, ASER2=ser, AERA1=era1, AERA2=era2, AHIT2=hit2)
    quick = [g(1, 0x70, 2, 0x70, 0x71),              # serial, other magazine, same tens/units, H2's page cached
             g(1, 0x70, 1, 0x71, 0x72, ser=0)]       # parallel, own magazine, next page
    full = list(quick)
    for pages in ((1, 0x70, 2, 0x70, 0x71), (1, 0x70, 2, 0x59, 0x71), (1, 0x70, 1, 0x71, 0x72), (1, 0x70, 1, 0x70, 0x71), (8, 0x99, 1, 0x99, 0x00), (2, 0x34, 8, 0x35, 0x33)):
        for ser in (0, 1):
            for era1, era2, hit2 in ((0, 0, 1), (0, 0, 0), (1, 0, 1), (0, 1, 0)):
                x = g(*pages, ser=ser, era1=era1, era2=era2, hit2=hit2)
                if x not in full:
                    full.append(x)
    return [Ob("asm_header_terminates", harness="h_c02asm.c", func="h_asm_terminate", unwind=50, vin_size=128,
               desc="vbi_decode_teletext on TWO page headers following a page in progress (LOP, control bits incl. serial/parallel C11 and erase C4 symbolic): "
                    "H2 of magazine M2/page P2 (grid: own or another magazine, same or different tens/units), sub-code and control bits symbolic, answered by "
                    "the cache with a hit or a miss (symbolic); H3 of the page's own magazine with a different number.  After H3 - the latest point the "
                    "property allows - the page has been handed to the cache exactly once and exactly one TTX_PAGE event carries its number (a repeat of its "
                    "own number: at least once)",
               encodes=["vbi_decode_teletext (case 0)", "store_lop", "lop_parity_check"],
               bounds="magazines/page numbers of the three headers, C11 (serial) and C4 (erase) of the page in progress and of H2, cache hit/miss for H2 on the grid; page in progress: header row only; its header and H2's carry C7 (suppress header), "
                      "so the channel switch heuristic of store_lop (which may swallow a page) is not entered",
               outside="rows between the headers (ttx_rows, lop_parity_gate), the cache itself (C10), channel switch heuristic, more than two following headers",
               stubs=["as h_packet.c (struct caption carved out, 8/30 + VPS stubs, empty CNI table) with a RECORDING cache stub: _vbi_cache_put_page logs the "
                      "page number and returns a page, _vbi_cache_get_page returns the hit/miss chosen by the harness; vbi_send_event logs TTX_PAGE numbers"],
               grid=full, quick_grid=quick, reach=["end"], timeout=600, mem_gb=6, **kw)]


def cache_obs(tier, seed):
    """'the transmitted page and subpage number ... a wildcard subpage fetch following a reception returns the subpage just received': decided on the REAL
    cache by C10's SEQ-3 obligation (put, put, get with symbolic sub-codes incl. the wildcard against a reference map with the EN 300 706 A.1 sub-code
    normalisation: 01..79 kept, clock codes, everything else one version); reused here unchanged (harness/h_c10.c, owned by C10)"""
    from vlib.props import C10
    out = []
    for ob in C10.obligations(tier, seed):
        if ob.name == "seq_put_put_get":
            ob.name = "cache_put_put_get"
            out.append(ob)
    return out


def obligations(tier, seed):
    p = packet_obs()
    from vlib.props._asm import asm_obs
    asm = [o for o in asm_obs() if o.name == "asm_header_terminates"]     # multi-packet assembly: page termination across headers, serial / parallel mode
    return [p[k] for k in ("pagelink", "x27_links", "lop_parity", "lop_parity_x26", "header")] + list(fmt_obs().values()) + cache_obs(tier, seed) + asm
