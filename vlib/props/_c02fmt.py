# C02 groups (b) Level 1 formatting of one row and (c) character set designation / mapping (src/teletext.c, src/lang.c).
# Delivered as a function for the owner of vlib/props/C02.py:  from vlib.props._c02fmt import fmt_obs
from vlib.runner import Ob

FM = dict(harness="h_c02fmt.c", units=["src/lang.c", "src/hamm.c"],
          stubs=["struct caption carved out of vbi_decoder (include guard CC_H + dummy)",
                 "vbi_decoder: static zero object, vt.max_level and vt.default_magazine.extension set directly to the EN 300 706 A.5 defaults "
                 "(ttx_extension_init) - vbi_teletext_init is not run",
                 "vbi_transp_colormap: plain palette copy (colours are compared as indices)",
                 "snprintf (CBMC only): constant text of the page number in row 0 (row 0 is not compared)",
                 "cache get/unref, vbi_convert_page: stubs, unreachable at Level 1 without navigation",
                 "native build: -fsanitize=bounds off for teletext.c functions only (raw[0][i] flat indexing, see ub_notes)"])

# vbi_format_vt_page() reads the page as vtp->data.lop.raw[0][i], i up to 999: index >= 40 into the first uint8_t[40] row of
# raw[26][40].  Inside the enclosing object (shown by the exact-size page object: pointer/object-size checks stay on),
# standard-level UB only -> ub_note, never a verdict (DESIGN 3.2).
IGN_FLAT = [r"teletext\.c:vbi_format_vt_page:array.*raw.*upper bound"]

ROW_UNW = {"vbi_format_vt_page.0": 41, "vbi_format_vt_page.1": 42, "vbi_format_vt_page.2": 4,
           "vbi_teletext_unicode.0": 14, "column_41.0": 25, "column_41.1": 25, "column_41.2": 25}


def fmt_obs():
    o = {}
    row_desc = ("vbi_format_vt_page(Level 1, display_rows 2, navigation off) on an exact-size LOP whose row 1 carries FMT_NSYM arbitrary 7-bit codes "
                "(columns FMT_FIRST..) with odd parity, an arbitrary set of them hit by a parity error, spaces elsewhere; page flags C5/C6 arbitrary: every "
                "one of the 40 cells equals the reference transcription of EN 300 706 12.2 Table 26 - character (Latin G0 through Table 36 for the header's "
                "national option, G1 mosaic in contiguous/separated form, held mosaic, space for attributes and parity errors), foreground, background, flash, "
                "conceal, boxing (opacity), size incl. the cell covered by a double width/size character; set-at vs set-after timing; start-of-row defaults; "
                "ESC switches to the second G0; double height/size: row 2 shows the lower halves / blanks with the upper background and "
                "double_height_lower bit 2, otherwise row 2 of the output stays untouched; fonts follow the national option")
    row_bounds = ("one row (row 1), window of FMT_NSYM symbolic columns at FMT_FIRST (grid), other columns SPACE; national option and second G0 from the grid "
                  "(region 0 options 0..6; second G0 = Polish in one instance); Level 1 only (no X/26 enhancement, no X/28 extension)")
    row_out = ("held mosaic reset on alpha/mosaic or size change: guarded by KNOWN_C02_HELD_MOSAIC_NO_RESET (see fmt_l1_held_reset); size of a double "
               "width/size character starting in column 39; lower row when a double height code is present but no cell is displayed double height; "
               "reserved national option 7; foreground/background CLUT offsets other than 0; C7/C10 flags; rows 0 and 2..24")
    Q = [dict(FMT_FIRST=0, FMT_NSYM=10, FMT_NATIONAL=0, FMT_SECOND=8),
         dict(FMT_FIRST=30, FMT_NSYM=10, FMT_NATIONAL=1, FMT_SECOND=0)]
    T = [dict(FMT_FIRST=f, FMT_NSYM=14, FMT_NATIONAL=n, FMT_SECOND=s)
         for (f, n, s) in ((0, 0, 8), (13, 2, 0), (26, 3, 0), (0, 4, 0), (26, 5, 0), (13, 6, 0), (26, 1, 0))]
    o["row"] = Ob("fmt_l1_row", func="h_fmt_row", unwind=45, unwindset=ROW_UNW, vin_size=64,
        defines={"KNOWN_C02_HELD_MOSAIC_NO_RESET": 1},
        desc=row_desc, encodes=["vbi_format_vt_page", "character_set_designation", "screen_color", "column_41", "vbi_teletext_unicode", "vbi_unpar8"],
        bounds=row_bounds, outside=row_out,
        assumes=["characters and attributes in the cell covered by a double width/size character are processed serially but not displayed",
                 "a held mosaic that is SPACE may be delivered as U+0020 or as the blank G1 mosaic U+EE20/U+EE00"],
        reach=["end", "double_height", "single_height", "held_mosaic", "boxed", "double_width", "parity_error"],
        grid=T, quick_grid=Q, ignore=IGN_FLAT, timeout=600, mem_gb=6, **FM)
    o["held_reset"] = Ob("fmt_l1_held_reset", func="h_fmt_held_reset", unwind=45, unwindset=ROW_UNW, vin_size=64,
        desc="strict held mosaic rule of Table 26 (1/E): six arbitrary codes out of {colour codes, hold, release, normal size, double height, characters}: wherever a "
             "held mosaic is displayed after a change of alphanumerics/mosaics mode or of size and before a new mosaic character, it is SPACE "
             "(EXPECTED TO BE REFUTED on the current tree: vbi_format_vt_page never resets held_mosaic_unicode; suspected defect, see report)",
        encodes=["vbi_format_vt_page"], bounds="six symbolic columns at the start of row 1", reach=["end", "reset"],
        ignore=IGN_FLAT, timeout=300, mem_gb=4, **FM)
    o["cs_latin"] = Ob("cs_latin_g0", func="h_cs_latin", unwind=15, vin_size=16, reach=["end", "invariant", "national"],
        desc="vbi_teletext_unicode(LATIN_G0, n, c) for every national sub-set n of the library and every code 0x20..0x7F: codes outside the 13 national option "
             "positions map to themselves (7/F -> U+25A0); the 13 positions equal the transcription of EN 300 706 Table 36 for English, German, "
             "Swedish/Finnish/Hungarian, Italian, French, Portuguese/Spanish, Czech/Slovak, Polish, Estonian; never 0, always UCS-2",
        encodes=["vbi_teletext_unicode"], bounds="none (14 x 96 cases symbolic)",
        outside="Table 36 rows not transcribed (Lettish/Lithuanian, Rumanian, Serbian/Croatian/Slovenian, Turkish) are checked for non-zero only",
        timeout=120, mem_gb=2, **FM)
    o["cs_all"] = Ob("cs_all_sets", func="h_cs_all", unwind=15, vin_size=16, reach=["end", "g0"],
        desc="vbi_teletext_unicode for every character set of section 15 (G0, G2, G1, G3), every sub-set, every code: total (no table read outside), result non-zero "
             "and UCS-2; every G0 set maps 2/0 to space, 3/0..3/9 to the digits, 7/F to U+25A0; G1/G3 map to the documented private codes",
        encodes=["vbi_teletext_unicode"], bounds="none (13 sets x 14 sub-sets x 96 codes symbolic); G1 codes 4/0..5/F excluded (documented precondition)",
        timeout=120, mem_gb=2, **FM)
    o["designation"] = Ob("cs_designation", func="h_cs_designation", unwind=45, vin_size=16, reach=["end", "defined", "reserved"],
        desc="character_set_designation for every pair of 7-bit designation codes and every C12-C14 value: the font is an entry of vbi_font_descriptors with usable "
             "G0/G2; if Table 32 defines (region of the code, header option) that entry is chosen, else if it defines the code as transmitted that one; the chosen "
             "descriptor carries the G0/G2/sub-set of the Table 32 row (transcribed in the harness)",
        encodes=["character_set_designation"], bounds="none (128 x 128 x 8 symbolic)",
        outside="choice among reserved entries of Table 32 (only: a usable font results)", timeout=120, mem_gb=2, **FM)
    return o
