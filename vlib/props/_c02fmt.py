# C02 groups (b) Level 1 formatting of one row and (c) character set designation / mapping (src/teletext.c, src/lang.c).
# Delivered as a function for the owner of vlib/props/C02.py:  from vlib.props._c02fmt import fmt_obs
from vlib.runner import Ob

FM = dict(harness="h_c02fmt.c", units=["src/lang.c", "src/hamm.c"])
ST_ROW = ["models/c02fmt_carve.h: struct caption (168 KB) and the packet assembly buffers of struct teletext (45 KB) carved out of vbi_decoder through "
          "the include guards of cc.h / teletext_decoder.h (teletext.c names neither)",
          "vbi_decoder: static zero object, vt.max_level and vt.default_magazine.extension set directly to the EN 300 706 A.5 defaults "
          "(what ttx_extension_init builds) - vbi_teletext_init is not run",
          "page object: typed replica of cache_page with raw[26][40] declared flat (the formatter indexes raw[0][0..999]) and a guard area after data.lop "
          "(nondeterministic under CBMC, ASan-poisoned natively): a LOP is allocated with cache_page_size() bytes",
          "vbi_transp_colormap: plain palette copy (colours are compared as indices)",
          "snprintf (CBMC only): constant text of the page number in row 0 (goto-cc drops the side effect of printf-family calls)",
          "cache get/unref, vbi_convert_page: stubs, unreachable at Level 1 without navigation",
          "native build: -fsanitize=bounds off for the functions of teletext.c only (raw[0][i] flat indexing, i >= 40, is standard-level UB inside data.lop)"]
ST_CS = ["same translation unit as the row obligations (src/teletext.c included, type carving as above), decoder and vbi_page objects compiled out"]
ROWDEF = {"C02FMT_ROWS": None}   # KNOWN_C02_HELD_MOSAIC_NO_RESET dropped: fixed in /repo
# raw_flat[1040] must be field sensitive (constant propagation of the concrete rows), text[1056] must not be (cheap struct stores)
FS1040 = ["--max-field-sensitivity-array-size", "1040"]
FS1056 = ["--max-field-sensitivity-array-size", "1056"]
ENC = ["vbi_format_vt_page", "character_set_designation", "screen_color", "column_41", "vbi_teletext_unicode", "vbi_unpar8"]
ASSUMES = ["characters and attributes in the cell covered by a double width/size character are processed serially (take effect, update the held mosaic) "
           "but are not displayed",
           "a held mosaic that is SPACE may be delivered as U+0020 or as the blank G1 mosaic U+EE20/U+EE00",
           "double height / double size codes are not transmitted in the header row and in row 24 (EN 300 706 12.2): the harness sends SPACE instead",
           "glyphs with more than one defensible Unicode are accepted in either form (long dash, double bar, Polish Z with stroke)"]
OUT_ROW = ("held mosaic reset on alpha/mosaic or size change: guarded by KNOWN_C02_HELD_MOSAIC_NO_RESET (decided by fmt_l1_held_reset); size of a double "
           "width/size character starting in column 39; reserved national option 7; foreground/background CLUT offsets other than 0; C7/C10 flags; "
           "X/26 enhancement and X/28 extension (Level 1.5+); rows between the first and the last")
ROW_DESC = ("vbi_format_vt_page(Level 1, navigation off) on a plain LOP whose row %s carries arbitrary 7-bit codes with odd parity, "
            "an arbitrary subset of them hit by a parity error; page flags C5/C6 arbitrary: every one of the 40 cells of the row equals the "
            "reference transcription of EN 300 706 12.2 Table 26 - character (Latin G0 through Table 36 for the header's national option, G1 mosaic in "
            "contiguous/separated form, held mosaic, space for attributes and parity errors), foreground, background, flash, conceal, boxing (opacity), size "
            "incl. the cell covered by a double width character, no other attribute; set-at vs set-after timing; start-of-row defaults; ESC switches to the "
            "second G0; fonts follow the national option; frame: neighbouring rows, the tail of text[] and the members around it untouched")


def fmt_obs():
    o = {}
    # full rows: all 32 transmitted columns of the header row / all 40 columns of row 24 symbolic
    hq = [dict(FMT_ROW=0, FMT_FIRST=8, FMT_NSYM=32, FMT_NATIONAL=0, FMT_SECOND=8),
          dict(FMT_ROW=0, FMT_FIRST=8, FMT_NSYM=32, FMT_NATIONAL=1, FMT_SECOND=0)]
    ht = hq + [dict(FMT_ROW=0, FMT_FIRST=8, FMT_NSYM=32, FMT_NATIONAL=n, FMT_SECOND=0) for n in (2, 3, 4, 5, 6)]
    o["header_row"] = Ob("fmt_l1_header_row", func="h_fmt_row", unwind=70, vin_size=64, defines=ROWDEF, flags=FS1040,
        desc=ROW_DESC % "0 (display_rows 1; columns 0..7 are the decoder's own page number text)", encodes=ENC,
        bounds="one row (the header row), all 32 transmitted columns 8..39 symbolic (7 bit code + parity error flag each); national option and second G0 "
               "from the grid (quick: English + Polish as second G0, German; thorough: region 0 options 0..6); Level 1",
        outside=OUT_ROW, assumes=ASSUMES, stubs=ST_ROW,
        reach=["end", "held_mosaic", "boxed", "double_width", "parity_error", "second_g0"],
        grid=ht, quick_grid=hq, timeout=600, mem_gb=4, **FM)
    lq = [dict(FMT_ROW=24, FMT_FIRST=0, FMT_NSYM=40, FMT_NATIONAL=2, FMT_SECOND=0)]
    lt = lq + [dict(FMT_ROW=24, FMT_FIRST=0, FMT_NSYM=40, FMT_NATIONAL=0, FMT_SECOND=8)] \
            + [dict(FMT_ROW=24, FMT_FIRST=0, FMT_NSYM=40, FMT_NATIONAL=n, FMT_SECOND=0) for n in (1, 3, 4, 5, 6)]
    o["last_row"] = Ob("fmt_l1_last_row", func="h_fmt_row", unwind=70, vin_size=64, defines=ROWDEF, flags=FS1040,
        desc=ROW_DESC % "24 (display_rows 25, rows 1..23 transmit spaces and must come out as white-on-black spaces)", encodes=ENC,
        bounds="one row (row 24) of a 25 row page, all 40 columns symbolic (7 bit code + parity error flag each), rows 1..23 SPACE; national option from the "
               "grid (quick: Swedish/Finnish; thorough: options 0..6, Polish as second G0 once); Level 1",
        outside=OUT_ROW, assumes=ASSUMES, stubs=ST_ROW,
        reach=["end", "held_mosaic", "boxed", "double_width", "parity_error", "second_g0"],
        grid=lt, quick_grid=lq, timeout=900, mem_gb=6, **FM)
    o["row_defaults"] = Ob("fmt_l1_row_start_defaults", func="h_fmt_row", unwind=70, vin_size=64, defines=dict(ROWDEF, FMT_PREV_PLAN=1), flags=FS1040,
        desc="start-of-row defaults: as fmt_l1_last_row, but row 23 is a concrete row that leaves EVERY attribute in its non-default state at its end (mosaic "
             "colour, separated mosaics, hold, conceal, flash, new background, box open, second G0): row 24 (all 40 columns symbolic) must still equal the "
             "Table 26 reference computed from row 24 alone - no state of the formatter survives the end of a row",
        encodes=ENC, bounds="rows 23 (concrete) and 24 (symbolic) of a 25 row page; national option 2; Level 1", outside=OUT_ROW, assumes=ASSUMES, stubs=ST_ROW,
        reach=["end", "held_mosaic", "boxed", "parity_error"],
        grid=[dict(FMT_ROW=24, FMT_FIRST=0, FMT_NSYM=40, FMT_NATIONAL=2, FMT_SECOND=0)], timeout=900, mem_gb=6, **FM)
    o["double_height"] = Ob("fmt_l1_double_height", func="h_fmt_row", unwind=70, vin_size=64, defines=ROWDEF, flags=FS1056,
        desc="double height / double size (row 1, display_rows 2): three concrete rows which go through every size transition (normal, double height, double "
             "width, double size, size codes inside covered cells, boxes, mosaics, held mosaics, conceal, flash), national option 0..6 and flags C5/C6 symbolic: "
             "row 1 equals the Table 26 reference incl. sizes; row 2 holds the lower halves (DOUBLE_HEIGHT2 / DOUBLE_SIZE2 + OVER_BOTTOM with the anchor's "
             "character and attributes) and, below normal height cells, spaces with the upper cell's background and opacity - the transmitted row 2 is "
             "suppressed; double_height_lower == 1<<2; rows 3, 4 and the frame untouched",
        encodes=ENC,
        bounds="row content concrete (grid FMT_PLAN 0..2), symbolic: national option 0..6, C5, C6.  A symbolic byte anywhere in the row makes the formatter's "
               "lower-row column index symbolic (it advances by the size read back from the 9 KB vbi_page): measured intractable (8 symbolic columns: "
               "> 10 GB, no verdict in 10 min with minisat / z3, arrays flattened or not)",
        outside="double height rows with arbitrary content; " + OUT_ROW, assumes=ASSUMES, stubs=ST_ROW,
        reach=["end", "double_height"],
        grid=[dict(FMT_ROW=1, FMT_PLAN=k) for k in (0, 1, 2)], quick_grid=[dict(FMT_ROW=1, FMT_PLAN=0)], timeout=900, mem_gb=3, **FM)
    o["held_reset"] = Ob("fmt_l1_held_reset", func="h_fmt_held_reset", unwind=70, vin_size=64, defines={"C02FMT_ROWS": None}, flags=FS1040,
        desc="strict held mosaic rule of Table 26 (1/E): six arbitrary codes out of {colour codes, hold, release, normal size, double width, characters} in the "
             "header row: wherever a held mosaic is displayed after a change of alphanumerics/mosaics mode or of size and before a new mosaic character, it "
             "is SPACE.  EXPECTED TO BE REFUTED on the current tree (vbi_format_vt_page never resets held_mosaic_unicode) - suspected defect, see report",
        encodes=["vbi_format_vt_page"], bounds="six symbolic columns 8..13 of the header row", reach=["end", "reset"], stubs=ST_ROW,
        timeout=300, mem_gb=3, **FM)
    o["cs_latin"] = Ob("cs_latin_g0", func="h_cs_latin", unwind=45, vin_size=16, reach=["end", "invariant", "national"],
        desc="vbi_teletext_unicode(LATIN_G0, n, c) for every national sub-set n of the library and every code 0x20..0x7F: codes outside the 13 national option "
             "positions map to themselves (7/F -> U+25A0); the 13 positions equal the transcription of EN 300 706 Table 36 for English, German, "
             "Swedish/Finnish/Hungarian, Italian, French, Portuguese/Spanish, Czech/Slovak, Polish, Estonian; never 0, always UCS-2",
        encodes=["vbi_teletext_unicode"], bounds="none (14 x 96 cases symbolic)", stubs=ST_CS,
        outside="Table 36 rows not transcribed (Lettish/Lithuanian, Rumanian, Serbian/Croatian/Slovenian, Turkish) and NO_SUBSET are checked for non-zero only",
        timeout=120, mem_gb=2, **FM)
    o["cs_all"] = Ob("cs_all_sets", func="h_cs_all", unwind=45, vin_size=16, reach=["end", "g0"],
        desc="vbi_teletext_unicode for every character set of section 15 (G0, G2, G1, G3), every sub-set, every code: total (no table read outside), result non-zero "
             "and UCS-2; every G0 set maps 2/0 to space, 3/0..3/9 to the digits, 7/F to U+25A0; G1/G3 map to the documented private codes",
        encodes=["vbi_teletext_unicode"], bounds="none (13 sets x 14 sub-sets x 96 codes symbolic); G1 codes 4/0..5/F excluded (documented precondition)",
        stubs=ST_CS, timeout=120, mem_gb=2, **FM)
    o["designation"] = Ob("cs_designation", func="h_cs_designation", unwind=45, vin_size=16, reach=["end", "defined", "reserved"],
        desc="character_set_designation for every pair of 7-bit designation codes and every C12-C14 value: the font is an entry of vbi_font_descriptors with usable "
             "G0/G2 (never outside the 88 entry table); if Table 32 defines (region of the designation code, C12-C14 option) that entry is chosen and its "
             "descriptor carries the G0/G2/sub-set of the Table 32 row (transcribed in the harness)",
        encodes=["character_set_designation"], bounds="none (128 x 128 x 8 symbolic)", stubs=ST_CS,
        outside="combinations Table 32 reserves (only: a usable font results; the library falls back to the code as transmitted, then to English)", timeout=120, mem_gb=2, **FM)
    return o
