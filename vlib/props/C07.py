from vlib.runner import Ob

# reset_frame(): `if (f->rp > f->raw)` compares two NULL pointers when no raw buffer is attached (always, through the public API).  CBMC's pointer check
# treats that as a fatal failure and reports every later property UNKNOWN; the comparison is rewritten to an integer comparison (same result on every
# supported platform), recorded as a cut + ub note.
RF = (r"if \(f->rp > f->raw\)", "if ((uintptr_t) f->rp > (uintptr_t) f->raw)")
RF_PATCH = {"src/dvb_demux.c": [RF]}
# extract_data_units(): `p + data_unit_length > p_end_m2` forms a pointer up to 255 bytes beyond the payload object before comparing (standard-level UB,
# fatal for CBMC's pointer check); rewritten to the equivalent length comparison (p < p_end_m2 holds in the loop); reported as ub note with this as the fix.
DUOV = (r"p \+ data_unit_length > p_end_m2", "data_unit_length > (unsigned int)(p_end_m2 - p)")
SCALE_PATCH = {"src/dvb_demux.c": [(r"pes_buffer\[ALIGN \(6 \+ 65536\)\]", "pes_buffer[PESCAP_SCALED]"), RF]}


def obligations(tier, seed):
    U = ["src/hamm.c"]
    stubs = ["_vbi_global_log zero (as before vbi_set_log_fn), _vbi_log_printf empty (never reached: masks 0)",
             "memcpy/memmove/memset byte-loop models (models/c06_env.h, ENV_LOOP_MEM): byte exact, overlap-correct, every access checked"]
    common = dict(harness="h_c07.c", units=U, stubs=stubs)
    # pointer relation on NULL pointers in reset_frame(): `f->rp > f->raw` with both NULL (no raw buffer): standard-level UB that
    # no compiler/sanitizer distinguishes; recorded as ub_note
    ub = [r"reset_frame:pointer relation"]
    seq_assumes = ["reset_frame(): NULL > NULL pointer comparison rewritten to an integer comparison (patch), see ub note",
                   "R7: demux = static zero object + real vbi_dvb_demux_reset() (reset_init shows every field later read is set by reset)",
                   "R2(e): frame output array re-pointed to an exact-size array of OUTN lines (streams here produce fewer lines)",
                   "R2(e): PES demux: pes_wrap.buffer re-pointed to an exact-size array of 192 bytes (PES packets of the streams are 184 bytes)"]
    ts_assumes = seq_assumes[:3] + ["scaled unit (TS demux only): dvb_demux.c compiled with pes_buffer[256] instead of [65552]; PES packets of the streams are 184 bytes, "
                                     "any access beyond 256 is a bounds failure (the TS demux addresses dx->pes_buffer directly; symex over the 64 KB array: ~40 s per Teletext unit)"]
    fs = ["--max-field-sensitivity-array-size", "800"]
    uw_seq = {"memcpy.0": 800, "memmove.0": 800, "memmove.1": 800, "memset.0": 300, "extract_data_units.8": 5, "demux_pes_packet.1": 4,
              "demux_pes_packet.3": 12, "demux_pes_packet_frame.1": 3, "demux_ts_packet.0": 4, "demux_ts_packet.9": 16}
    wrap_q = [dict(CAP=8, SS=10), dict(CAP=8, SS=3)]
    wrap_t = [dict(CAP=16, SS=24), dict(CAP=16, SS=6), dict(CAP=12, SS=1)]
    # PES: 2 packets = 368 bytes, cut positions around every structural boundary
    cuts_q = [(0, 100), (0, 47), (1, 184), (2, 231), (3, 3), (4, 330), (6, 184), (7, 190)]
    split_q = [dict(TS=0, SHAPE=s, CUT=c) for (s, c) in cuts_q]
    split_t = [dict(TS=0, SHAPE=s, CUT=c) for s in (0, 1, 2, 3, 4, 6, 7) for c in
               (1, 2, 3, 4, 5, 6, 7, 9, 10, 14, 45, 46, 47, 48, 49, 50, 91, 92, 93, 137, 138, 139, 183, 184, 185, 186, 187, 188, 190, 193,
                229, 230, 231, 232, 233, 234, 276, 277, 300, 322, 323, 366, 367)]
    split_t += [dict(TS=0, SHAPE=0, CUT=c, CUT2=d) for (c, d) in ((1, 2), (3, 190), (47, 48), (100, 200), (183, 185), (184, 230), (46, 232), (230, 367))]
    tsplit_q = [dict(TS=1, SHAPE=0, CUT=200), dict(TS=1, SHAPE=1, CUT=9)]
    tsplit_t = [dict(TS=1, SHAPE=s, CUT=c) for s in (0, 1, 2, 3, 4) for c in
                (1, 3, 4, 5, 9, 10, 11, 50, 51, 100, 187, 188, 189, 191, 192, 196, 197, 198, 199, 200, 238, 239, 300, 375)]
    tsplit_t += [dict(TS=1, SHAPE=0, CUT=c, CUT2=d) for (c, d) in ((4, 188), (100, 197), (188, 192), (197, 198), (10, 370))]
    garb_q = [dict(TS=0, LEN1=40, LEN2=0), dict(TS=0, LEN1=20, LEN2=27), dict(TS=1, LEN1=100, LEN2=96)]
    garb_t = garb_q + [dict(TS=0, LEN1=1, LEN2=46), dict(TS=0, LEN1=47, LEN2=0), dict(TS=1, LEN1=9, LEN2=187), dict(TS=1, LEN1=196, LEN2=0)]
    du_q = [dict(DUL=46, RAW=0), dict(DUL=7, RAW=0)]
    du_t = du_q + [dict(DUL=d, RAW=0) for d in (3, 4, 5, 6, 8, 16, 17, 18, 47, 48, 138, 257, 259)]
    # Dropped after measurement (harness functions kept for reference): split_equiv_symunit (first unit of packet 2 fully symbolic, byte-backed
    # output array): no verdict in 900 s; bytewise_equiv (368 one-byte feeds): no verdict in 900 s.
    return [
        Ob("wrap_around_step", defines={"G_WRAP": None}, func="h_wrap_step", unwind=12, solver="cadical",
           desc="INV-STEP refinement of the real static wrap_around(): symbolic skip (32 bit), lookahead <= CAP, leftover, bp, src_left <= SS, symbolic wrap buffer, "
                "previous-buffer bytes and source buffer; invariant = the leftover bytes are the stream bytes just before *src.  Decides: no access outside the "
                "exact-size wrap buffer / source buffer, cursor conservation (no byte skipped or seen twice), invariant re-established, TRUE => window [*dst, *scan_end + "
                "lookahead) lies in one object, scan_end >= dst, and equals the logical stream at the cursor, skip done; FALSE => all input consumed",
           encodes=["wrap_around"], bounds="capacity CAP = 8 and source size SS = 10 / 3 (scaled; measured: CAP=8 ~100 s, CAP=16 ~800 s under load, both discharged); one step from any state satisfying the invariant",
           assumes=["invariant I (see harness) - established by vbi_dvb_demux_reset (reset_init); that demux_pes_packet keeps lookahead <= sizeof pes_buffer "
                    "(packet_length - 40 <= 65495 < 65552) is an argument by reading, not a solver verdict"],
           outside="capacity 65552 itself (the function is size-generic: no constant of the buffer size occurs in it)",
           grid=wrap_q, reach=["end", "wrapped", "in_place", "need_more"], timeout=900, mem_gb=4, vin_size=400, **common),
        Ob("wrap_around_step_16", defines={"G_WRAP": None}, func="h_wrap_step", unwind=26, solver="cadical", tier="thorough",
           desc="INV-STEP refinement of the real static wrap_around(): symbolic skip (32 bit), lookahead <= CAP, leftover, bp, src_left <= SS, symbolic wrap buffer, "
                "previous-buffer bytes and source buffer; invariant = the leftover bytes are the stream bytes just before *src.  Decides: no access outside the "
                "exact-size wrap buffer / source buffer, cursor conservation (no byte skipped or seen twice), invariant re-established, TRUE => window [*dst, *scan_end + "
                "lookahead) lies in one object, scan_end >= dst, and equals the logical stream at the cursor, skip done; FALSE => all input consumed",
           encodes=["wrap_around"], bounds="capacity CAP = 16 / 12 and source size SS = 24 / 6 / 1 (scaled; measured: CAP=8 ~100 s, CAP=16 ~800 s under load, both discharged); one step from any state satisfying the invariant",
           assumes=["invariant I (see harness) - established by vbi_dvb_demux_reset (reset_init); that demux_pes_packet keeps lookahead <= sizeof pes_buffer "
                    "(packet_length - 40 <= 65495 < 65552) is an argument by reading, not a solver verdict"],
           outside="capacity 65552 itself (the function is size-generic: no constant of the buffer size occurs in it)",
           grid=wrap_t, reach=["end", "wrapped", "in_place", "need_more"], timeout=2400, mem_gb=4, vin_size=400, **common),
        Ob("reset_init", defines={"G_INIT": None}, func="h_reset_init", unwind=10, unwindset={"memset.0": 300},
           desc="vbi_dvb_demux_reset on an object with dirty control fields establishes the wrap_around invariant for both contexts and the initial frame/TS state "
                "(INIT |= I; basis of the directly constructed demux objects)",
           encodes=["vbi_dvb_demux_reset"], bounds="none", timeout=120, vin_size=128, **common),
        Ob("split_equiv_pes", defines={"G_SEQ": None}, func="h_split_equiv", unwind=50, unwindset=uw_seq, flags=fs, patch=RF_PATCH,
           desc="real vbi_dvb_demux_feed (PES): stream of two valid 184 byte VBI PES packets (structure SHAPE: new frame / continuation in field 2 / stuffing in the "
                "middle / illegal line / unknown+private units and duplicate line / undefined lines (line_offset 0) with the second field in its own packet; both PTS and all unit payloads symbolic) fed whole vs. cut at CUT (and CUT2): identical "
                "callback sequence (count, lines, PTS, line contents), identical pending frame and frame state, identical resume position; representation invariant after every call",
           encodes=["vbi_dvb_demux_feed", "demux_pes_packet", "wrap_around", "demux_pes_packet_frame", "valid_vbi_pes_packet_header", "decode_timestamp",
                    "extract_data_units", "line_address", "reset_frame"],
           assumes=seq_assumes, bounds="2 packets (368 bytes); cut positions on the grid (6 quick; 43 positions x 5 shapes + 8 double cuts thorough)",
           outside="symbolic unit structure (frame.sp symbolic; tried with one symbolic unit: no verdict in 900 s); single-byte feeding (368 calls: no verdict in 900 s); PES packets > 184 bytes",
           grid=split_t, quick_grid=split_q, reach=["end"], timeout=600, mem_gb=3, vin_size=400, **common),
        Ob("split_equiv_ts", func="h_split_equiv", unwind=50, unwindset=uw_seq, flags=fs, patch=SCALE_PATCH,
           defines={"G_SEQ": None, "SCALED_PES_BUFFER": 1, "PESCAP_SCALED": 256},
           desc="same for the TS demultiplexer: two 188 byte transport packets (PID 0x123, payload_unit_start, continuity 5,6) carrying the two PES packets; sync search, "
                "header collection across cuts, payload reassembly into pes_buffer",
           encodes=["vbi_dvb_demux_feed", "demux_ts_packet", "demux_pes_packet_frame", "valid_vbi_pes_packet_header", "extract_data_units"],
           assumes=ts_assumes, bounds="2 TS packets (376 bytes); cuts on the grid", outside="adaptation fields, PID mismatch, continuity errors in the split runs (see garbage_*)",
           grid=tsplit_t, quick_grid=tsplit_q, reach=["end"], timeout=600, mem_gb=3, vin_size=400, **common),
        Ob("cor_equiv", defines={"G_SEQ": None}, func="h_cor_equiv", unwind=50, unwindset=dict(uw_seq, **{"h_cor_equiv.3": 4}), flags=fs, patch=RF_PATCH,
           desc="vbi_dvb_demux_cor (callback NULL) on the same stream returns the frames the callback interface delivers (lines, PTS), consumes the whole stream",
           encodes=["vbi_dvb_demux_cor", "demux_pes_packet", "demux_pes_packet_frame"], assumes=seq_assumes, bounds="2 packets, shapes 0..2",
           grid=[dict(TS=0, SHAPE=s) for s in (0, 1, 2, 3, 4, 6, 7)] + [dict(TS=0, SHAPE=s, COR_MAX=1) for s in (0, 1)],
           quick_grid=[dict(TS=0, SHAPE=0), dict(TS=0, SHAPE=6), dict(TS=0, SHAPE=0, COR_MAX=1)],     # COR_MAX=1: the caller's array (exact size) is smaller than the frames
           reach=["end"], timeout=600, mem_gb=3, vin_size=400, **common),
        Ob("garbage_feed", defines={"G_SEQ": None}, func="h_garbage", unwind=45, unwindset={"memcpy.0": 202, "memmove.0": 50, "memmove.1": 50, "memset.0": 300, "demux_pes_packet.3": 4, "demux_pes_packet.1": 4, "demux_ts_packet.9": 4}, flags=fs, patch=RF_PATCH, solver="cadical",
           desc="LEN1 (+LEN2) fully symbolic bytes fed from reset to the PES resp. TS demultiplexer, callback result symbolic: all safety properties of dvb_demux.c "
                "(exact-size source buffers, pes_buffer/ts_buffer, pointer arithmetic, overflow, shift), termination inside the unwind bounds, representation invariant "
                "after each call, feed returns TRUE unless the callback refused",
           encodes=["vbi_dvb_demux_feed", "demux_pes_packet", "demux_ts_packet", "wrap_around", "valid_vbi_pes_packet_header", "decode_timestamp"],
           assumes=seq_assumes[:3] + ["PES runs: pes_wrap.buffer re-pointed to 192 bytes >= total number of bytes fed (the buffer never holds more than was fed, whatever "
                                      "packet length the garbage announces); TS runs use the real 65552 byte pes_buffer"],
           bounds="total length below the first look-ahead (PES < 48, TS < 197 bytes): exercises the accumulation of partial look-ahead across calls only",
           outside="garbage long enough to enter the start-code / sync-byte scan with symbolic content: measured no verdict (PES 52 bytes: symex > 280 s; 64 bytes: > 900 s; the "
                   "symbolic skip makes every later copy length and source offset symbolic) - the scan is covered compositionally: wrap_around_step (any skip/lookahead) + "
                   "split/recovery obligations (concrete structure); TS continuity/PID faults are not covered",
           grid=garb_t, quick_grid=garb_q, reach=["end"], timeout=900, mem_gb=6, vin_size=400, **common),
        Ob("data_units_garbage", defines={"G_DU": None}, func="h_data_units", patch={"src/dvb_demux.c": [DUOV]}, unwind=43, unwindset={"memcpy.0": 300, "extract_data_units.8": 2}, solver="cadical",
           desc="INV-STEP over the data-unit loop of extract_data_units: one fully symbolic data unit (payload of DUL bytes, exact-size object, first unit reaching to "
                "within 2 bytes of the end) from ANY frame state (sp anywhere in [begin,end], any last line/field/unit id/extracted count), frame.raw == NULL as in every "
                "state the public API can reach: no access outside payload or output array, sp stays inside the array (= the invariant, so payloads with any number of such "
                "units follow by induction), success consumes everything, an error leaves *src at the offending unit with *src_left the rest, error codes in range",
           encodes=["extract_data_units", "line_address", "lofp_to_line"], bounds="payload/unit length DUL on the grid (7, 46 quick; 3..259 thorough); output array of 3 lines",
           assumes=["first data unit covers the payload up to the last 2 bytes (single loop iteration; induction over sp in [begin,end])",
                    "dvb_demux.c:893 `p + data_unit_length > p_end_m2` rewritten to `data_unit_length > p_end_m2 - p` (patch; out-of-object intermediate pointer, see ub note)",
                    "R2(f): output array byte-backed"],
           outside="frame.raw != NULL (not reachable through the public API: vbi_dvb_demux_reset never sets it; see report: latent p[5] over-read and sp underflow)",
           grid=du_t, quick_grid=du_q, reach=["end", "ok", "error", "line_stored"], timeout=900, mem_gb=6, vin_size=600, **common),
        Ob("recovery", defines={"G_SEQ": None, "TS": 0, "LOGN": 4}, func="h_recovery", unwind=50, unwindset=uw_seq, flags=fs, patch=RF_PATCH,
           desc="PES stream D A B C: D damaged in one of 9 ways (PES flags, reserved data_identifier, wrong header length, illegal line, unit crossing the packet, "
                "foreign stream id, PTS missing at a frame start, duplicate line, intact-but-later line), A B C intact single-line frames; payloads and all PTS "
                "symbolic: frame B is the last delivered frame, exactly (line, service, 42 payload bytes, B's PTS), C is pending with its PTS and payload; at most 3 frames",
           encodes=["vbi_dvb_demux_feed", "demux_pes_packet", "demux_pes_packet_frame", "valid_vbi_pes_packet_header", "extract_data_units", "line_address"],
           assumes=seq_assumes, bounds="4 packets of 184 bytes, whole feed; damage kinds on the grid",
           outside="damage with symbolic position/content (measured: symbolic data units in D make frame.sp symbolic: no verdict in 900 s); truncated packets "
                   "(the demux then skips into the next packet and an adversarial payload can imitate a start code: the property's 'at most the first frame' does not hold "
                   "for arbitrary payloads - not claimed); TS recovery (continuity/PID/sync loss) beyond garbage_feed_big",
           grid=[dict(DKIND=k) for k in range(9)], quick_grid=[dict(DKIND=k) for k in (0, 3, 4, 8)], reach=["end"], timeout=600, mem_gb=3, vin_size=400, **common),
        Ob("recovery_ts_continuity", func="h_recovery", unwind=50, unwindset=dict(uw_seq, **{"demux_ts_packet.0": 6}), flags=fs, patch=SCALE_PATCH,
           defines={"G_SEQ": None, "TS": 1, "LOGN": 4, "DKIND": 8, "SCALED_PES_BUFFER": 1, "PESCAP_SCALED": 256},
           grid=[dict(TSJUMP=j) for j in (3, 4, 9, 0, 1, 2)], quick_grid=[dict(TSJUMP=3), dict(TSJUMP=9)],
           desc="TS stream D A B C (four 188 byte transport packets of the PID, one 184 byte PES packet = one single-line frame each, payloads and PTS symbolic) with the "
                "continuity counter jumping between D (counter 1) and A (counter TSJUMP on the grid: 3 = one packet lost, 4, 9, 0 = more, 2 = nothing lost, 1 = looks like a "
                "repetition of D), consecutive afterwards: frame B is the last delivered frame, exactly (line, service, 42 payload bytes, B's PTS), C is pending with its PTS and payload - at most the "
                "first frame after the discontinuity (A) is lost",
           encodes=["vbi_dvb_demux_feed", "demux_ts_packet", "demux_pes_packet_frame", "valid_vbi_pes_packet_header", "extract_data_units"],
           assumes=ts_assumes, bounds="4 TS packets, whole feed; counter after the jump on the grid (2 quick, 6 thorough values of 16)",
           outside="PES packets spanning several TS packets when the jump occurs; transport_error / scrambling / adaptation-field damage (the packet is dropped BEFORE the "
                   "counter is updated, so the next intact packet is seen as a discontinuity and dropped too - still 'at most the first frame after the damage' when the "
                   "flagged packet counts as the damage; not claimed); foreign PIDs in between",
           reach=["end"], timeout=600, mem_gb=3, vin_size=400, **common),
    ]
