from vlib.runner import Ob

def obligations(tier, seed):
    U = ["src/hamm.c"]
    common = dict(harness="h_c12.c", units=U, stubs=[], vin_size=256, flags=["--no-undefined-shift-check"])
    return [
        Ob("vps_pdc_roundtrip", func="h_vps_pdc_roundtrip", unwind=14,
           desc="encode_vps_pdc then decode_vps_pdc returns the same CNI/PIL/PCS/PTY for every value; refusal iff out of range with buffer untouched; "
                "only field bits change in an arbitrary 13-byte line; re-encode reproduces the bits; 0xDC3 exception",
           encodes=["vbi_encode_vps_pdc", "vbi_encode_vps_cni", "vbi_decode_vps_pdc", "vbi_decode_vps_cni"],
           bounds="none: 13 symbolic bytes, all 32-bit field values", reach=["end", "refused"], timeout=120, **common),
        Ob("vps_cni_roundtrip", func="h_vps_cni_roundtrip", unwind=14,
           desc="encode_vps_cni/decode_vps_cni inverse for all 32-bit cni; only bits 8[7:6], 10[1:0], 11 change",
           encodes=["vbi_encode_vps_cni", "vbi_decode_vps_cni"], bounds="none", reach=["end", "refused"], timeout=120, **common),
        Ob("vps_decode_reencode", func="h_vps_decode_reencode", unwind=14,
           desc="for all 2^104 VPS lines decode extracts the EN 300 231 field bits and re-encoding reproduces the line (raw 0xDC3 excepted)",
           encodes=["vbi_decode_vps_pdc", "vbi_encode_vps_pdc"], bounds="none", reach=["end", "dc3"], timeout=120, **common),
        Ob("dvb_pdc_descriptor", func="h_dvb_pdc", unwind=6,
           desc="DVB PDC descriptor encode/decode inverse for all PILs, refusal iff pil>0xFFFFF resp. tag/len wrong, outputs untouched on refusal",
           encodes=["vbi_encode_dvb_pdc_descriptor", "vbi_decode_dvb_pdc_descriptor"], bounds="none",
           unwindset={'memcmp.0': 100}, reach=["end", "refused"], timeout=120, **common),
        Ob("p8301_any_packet", func="h_8301_any", unwind=17,
           desc="8/30 format 1 local time + CNI: for every 42-byte packet the decoder accepts iff all BCD digits (+1 coded) and h/m/s are in range, "
                "returns (mjd-40587)*86400+utc and the LTO of an independent decoder, leaves outputs untouched on rejection",
           encodes=["vbi_decode_teletext_8301_local_time", "vbi_decode_teletext_8301_cni", "bcd2bin", "vbi_is_bcd"],
           bounds="none: full 42 symbolic bytes (all MJD 0..99999, all times, all 64 offsets, all invalid codings)",
           reach=["end", "rejected"], timeout=300, **common),
        Ob("p8302_roundtrip_1biterr", func="h_8302_roundtrip", unwind=17,
           desc="8/30 format 2: reference encoder (own Hamming 8/4 from the parity equations) -> decode returns every field; one symbolic single-bit error in bytes 9..21 does not change the result",
           encodes=["vbi_decode_teletext_8302_pdc", "vbi_decode_teletext_8302_cni", "vbi_unham8", "vbi_unham16p", "vbi_rev8"],
           bounds="none: all field values, all 104 error positions + no error", timeout=300, **common),
        Ob("p8302_any_packet", func="h_8302_any", unwind=17,
           desc="8/30 format 2: arbitrary packet accepted iff every protected byte is within Hamming distance 1 of a code word (two errors in a byte => refused), pid untouched on refusal",
           encodes=["vbi_decode_teletext_8302_pdc", "vbi_decode_teletext_8302_cni"], bounds="none: 42 symbolic bytes",
           unwindset={'memcmp.0': 100}, reach=["end", "rejected"], timeout=300, **common),
    ]
