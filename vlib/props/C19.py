import os
from vlib.runner import Ob

# The defects A-J below were found by these obligations and are repaired in /repo (seven `fix:' commits cd2a94b..9974610, see
# known_findings.json; the reverse patches are seeded/FIX-proxy-*).  The substitutions are kept as documentation of what each fix
# was; on the repaired tree the patterns no longer match and nothing is substituted.
PROPOSED_PATCH = {
    "daemon/proxyd.c": [
        # A. SERVICE_REQ: clamp the client supplied strictness before it is used as an array index (as CONNECT_REQ does)
        (r"(            if \( vbi_proxyd_take_service_req\(req, pBody->service_req\.services,)",
         "            if (pBody->service_req.strict < VBI_MIN_STRICT) pBody->service_req.strict = VBI_MIN_STRICT;\n"
         "            else if (pBody->service_req.strict > VBI_MAX_STRICT) pBody->service_req.strict = VBI_MAX_STRICT;\n\\1"),
        # J. VBI_GET_SERVICE_P forms services + strict before adding 1: for strict == -1 a pointer before the array (UBSan: index -1 out of bounds)
        (r"#define VBI_GET_SERVICE_P\(PREQ,STRICT\)  \(\(PREQ\)->services \+ \(signed\)\(STRICT\) - VBI_MIN_STRICT\)",
         "#define VBI_GET_SERVICE_P(PREQ,STRICT)  ((PREQ)->services + ((signed)(STRICT) - VBI_MIN_STRICT))"),
        # C. NOTIFY(TOKEN): only a client that has (or is being given) the token can return it
        (r"else if \(pBody->chn_notify_req\.notify_flags & VBI_PROXY_CHN_TOKEN\)",
         "else if ((pBody->chn_notify_req.notify_flags & VBI_PROXY_CHN_TOKEN) && (req->chn_state.token_state != REQ_TOKEN_NONE))"),
        # H. SERVICE_CNF is assembled through the connect_cnf layout (copy/paste): pattern pointer of the daemon stays in the reply, the
        #    "not capturing" defaults land outside service_cnf.dec
        (r"(?s)(case MSG_TYPE_SERVICE_REQ:\s*if \(req->state == REQ_STATE_FORWARD\).*?vbi_proxy_msg_write\(&req->io, MSG_TYPE_SERVICE_CNF,)",
         lambda m: m.group(1).replace("connect_cnf.dec", "service_cnf.dec")),
        # D. channel_update: flush only an open device
        (r"if \(forced_switch\)\n(\s*)\{\n(\s*)vbi_capture_flush\(p_proxy_dev->p_capture\);",
         "if (forced_switch && (p_proxy_dev->p_capture != NULL))\n\\1{\n\\2vbi_capture_flush(p_proxy_dev->p_capture);"),
    ],
    "src/proxy-msg.c": [
        # E. a header with an illegal length ends the read: do not enter phase two (assert / recv with an underflowed size)
        (r"if \(\(err == FALSE\) && \(pIO->readOff >= sizeof\(VBIPROXY_MSG_HEADER\)\)\)\n(\s*)\{  /\* in read phase two",
         "if ((err == FALSE) && (result != FALSE) && (pIO->readOff >= sizeof(VBIPROXY_MSG_HEADER)))\n\\1{  /* in read phase two"),
        # B. a partially received message is a legal I/O state: "not idle", no assertion
        (r"vbi_bool vbi_proxy_msg_read_idle\( VBIPROXY_MSG_STATE \* pIO \)\n\{\n\s*assert\(\(pIO->readOff == 0\) \|\| \(pIO->readOff == pIO->readLen\)\);\n",
         "vbi_bool vbi_proxy_msg_read_idle( VBIPROXY_MSG_STATE * pIO )\n{\n"),
        (r"vbi_bool vbi_proxy_msg_is_idle\( VBIPROXY_MSG_STATE \* pIO \)\n\{\n\s*assert\(\(pIO->readOff == 0\) \|\| \(pIO->readOff == pIO->readLen\)\);\n",
         "vbi_bool vbi_proxy_msg_is_idle( VBIPROXY_MSG_STATE * pIO )\n{\n"),
    ],
}

M = ["c19_io.c"]
U = ["src/inout.c", "src/misc.c"]
STUBS = ["models/c19_io.c: recv/send/close (POSIX contract, results scripted from the symbolic input), time/alarm/getpid/perror/ioctl",
         "models/c19_io.c: capture device = vbi_capture object behind the REAL src/inout.c wrappers; vbi_capture_v4l2_new/v4l_new may fail; "
         "update_services grants an arbitrary subset; always VBI_FD_HAS_SELECT (no acquisition thread)",
         "vbi_proxy_msg_logger: empty body (real logger renamed, unused)", "pthread_mutex_*: flag + lock discipline assertions (solver build)"]
UB_IGNORE = [r"arithmetic overflow on signed - in p_walk->chn_profile\.min_duration"]


def obligations(tier, seed):
    patch = None
    RB = ["vbi_proxyd_acq_thread"]     # acquisition-thread mode is outside the claim; CBMC would otherwise treat the thread body as a target of capture->method() calls
    common = dict(harness="h_c19.c", units=U, models=M, stubs=STUBS, patch=patch, ignore=UB_IGNORE, remove_bodies=RB)
    uw = {"_vbi_strlcpy.0": 130, "memcmp.0": 18, "recv.0": 17, "c19_log_send.0": 17, "c19_log_send.1": 17, "h_msg.3": 110}
    INV = ["daemon invariant between events (asserted again after every step): <= 1 client per device with token_state != NONE, scheduler cycle_count in 0..2, "
           "time stamps in [0,2^32), device open <=> capture+decoder present, frame queue: every queued frame referenced exactly by the clients at or before it, "
           "never both queued and free, cursors inside the queue; connections are WAIT_CON_REQ (as vbi_proxyd_add_connection leaves them) or FORWARD"]
    WORLD = ("-buffers 1; every client asks for 1 buffer; device 0 open with 2 one-line frame buffers (NQ queued, cursors symbolic) or closed, device 1 closed; "
             "clock in [0,2^32); |min_duration| < 2^40; update_services: first 4 calls scripted, later ones grant nothing")
    g = lambda **kw: dict(kw)
    # ---- (1) message handling ----
    msg_q = [g(MSGT=t, NCL=2, ACT=0, BDEV=0, DEVOPEN=1, NQ=1) for t in (3, 8, 11, 14, 15, 18, 22)]
    msg_q += [g(MSGT=0, NCL=2, ACT=0, BDEV=0, DEVOPEN=1, NQ=1, STRICTV=v) for v in (-128, 0, 2, 127)]
    msg_q += [g(MSGT=5, NCL=2, ACT=0, BDEV=0, DEVOPEN=1, NQ=1, STRICTV=v) for v in (-1, 2)]
    msg_q += [g(MSGT=5, NCL=2, ACT=0, BDEV=0, DEVOPEN=1, NQ=1, STRICTV=v) for v in (-2, 3, 23)]      # out of range: refuted on a tree without the clamp
    msg_q += [g(MSGT=11, NCL=2, ACT=1, BDEV=0, DEVOPEN=0, NQ=0), g(MSGT=18, NCL=2, ACT=1, BDEV=0, DEVOPEN=0, NQ=0, DEVCASE=0),
              g(MSGT=0, NCL=2, ACT=1, BDEV=0, DEVOPEN=0, NQ=0, DEVCASE=3, STRICTV=1)]
    msg_t = list(msg_q)
    msg_t += [g(MSGT=0, NCL=2, ACT=0, BDEV=0, DEVOPEN=1, NQ=1), g(MSGT=5, NCL=2, ACT=0, BDEV=0, DEVOPEN=1, NQ=1)]          # strictness symbolic
    msg_t += [g(MSGT=t, NCL=2, ACT=1, BDEV=0, DEVOPEN=0, NQ=0, DEVCASE=c, STRICTV=0) for t in (0, 5) for c in (0, 1, 2, 3, 4)]
    msg_t += [g(MSGT=18, NCL=2, ACT=1, BDEV=0, DEVOPEN=0, NQ=0, DEVCASE=c) for c in (1, 2, 3, 4)]
    msg_t += [g(MSGT=t, NCL=2, ACT=1, BDEV=0, DEVOPEN=1, NQ=2) for t in (3, 8, 11, 14, 18)]
    msg_t += [g(MSGT=t, NCL=2, ACT=0, BDEV=1, DEVOPEN=1, NQ=1) for t in (3, 8, 11, 14)]
    tok_q = [g(MSGT=8, NCL=3, ACT=0, BDEV=0, DEVOPEN=1, NQ=0), g(MSGT=8, NCL=3, ACT=2, BDEV=0, DEVOPEN=1, NQ=0),
             g(MSGT=11, NCL=3, ACT=1, BDEV=0, DEVOPEN=1, NQ=1), g(MSGT=14, NCL=3, ACT=1, BDEV=0, DEVOPEN=1, NQ=0),
             g(MSGT=11, NCL=3, ACT=0, BDEV=1, DEVOPEN=1, NQ=0), g(MSGT=3, NCL=3, ACT=1, BDEV=0, DEVOPEN=1, NQ=1)]
    tok_t = [g(MSGT=t, NCL=3, ACT=a, BDEV=b, DEVOPEN=1, NQ=q) for t in (8, 11, 14, 3) for a in (0, 1, 2) for (b, q) in ((0, 0), (0, 2), (1, 1))]
    obs = [
        Ob("read_framing", func="h_read", unwind=8, unwindset={"h_read.2": 200, "recv.0": 49},
           desc="message framing: vbi_proxy_msg_handle_read driven as the daemon drives it (3 event-loop iterations; vbi_proxy_msg_read_idle / _is_idle / _check_timeout "
                "called where vbi_proxyd_get_fd_set and vbi_proxyd_handle_client_sockets call them) on a client byte stream of arbitrary content, delivered by recv() in "
                "arbitrary chunks, with EAGAIN/EINTR/ECONNRESET and orderly shutdown at any byte: no assert() of the real code fails, nothing is written outside the "
                "exact-size message buffer (any length field, in particular > buffer and < header size), offsets stay inside the buffer, and a completed message equals the "
                "stream bytes (length/type in network order)",
           encodes=["vbi_proxy_msg_handle_read", "vbi_proxy_msg_read_idle", "vbi_proxy_msg_is_idle", "vbi_proxy_msg_close_read", "vbi_proxy_msg_check_timeout"],
           bounds="3 calls (<= 6 recv); buffer of RBUF bytes (RBUF=0: sizeof(VBIPROXY_MSG)=992, the daemon's), recv delivers <= C19_MAXCHUNK bytes per call; stream <= 6*C19_MAXCHUNK bytes",
           outside="more than 3 reads per message; argument that handle_read is parametric in max_read_len is by reading, not by the solver",
           grid=[g(RBUF=24, C19_MAXCHUNK=32, C19_NIO=6), g(RBUF=40, C19_MAXCHUNK=16, C19_NIO=6), g(RBUF=0, C19_MAXCHUNK=16, C19_NIO=6)],
           quick_grid=[g(RBUF=24, C19_MAXCHUNK=32, C19_NIO=6), g(RBUF=40, C19_MAXCHUNK=16, C19_NIO=6)],
           reach=["end", "dropped", "complete", "partial"], timeout=900, mem_gb=5, vin_size=512, **common),
        Ob("event_loop", func="h_loop", unwind=6, unwindset=uw,
           desc="event loop body, INV-STEP over connection I/O states (partial messages, silence, disconnect at any byte): one iteration of the REAL vbi_proxyd_get_fd_set + "
                "(select: ready or not) + vbi_proxyd_handle_client_sockets for one connection without services (device closed) that is RDOFF bytes into a message "
                "(RDOFF on the grid: 0 idle, 3 inside the header, 8 header complete, 12 inside the body; length field symbolic): no assert() of the daemon fails, the I/O "
                "invariant (offset < 8 => no length yet; else 8 <= length <= sizeof msg_buf, offset < length; no write while reading) holds again, every connection is watched, "
                "a dropped connection is closed once, unlinked and freed, the client count is right.  Message semantics are abstracted (check_msg/take_message: any result, "
                "no effect; update_services/channel_update/send_sliced: unreachable in this state, bodies removed) - they are the subject of msg_take / disconnect / C18",
           encodes=["vbi_proxyd_handle_client_sockets", "vbi_proxyd_get_fd_set", "vbi_proxy_msg_handle_read", "vbi_proxy_msg_handle_write", "vbi_proxy_msg_is_idle",
                    "vbi_proxy_msg_read_idle", "vbi_proxyd_close", "vbi_proxy_msg_close_io", "vbi_proxy_msg_check_timeout", "vbi_proxy_msg_write"],
           bounds="one iteration; one recv()/send() call succeeds (<= 8 bytes), further calls in the same iteration see EAGAIN; " + WORLD, assumes=INV + ["I/O invariant of the connection"],
           outside="several reads of one connection in one run (offsets become symbolic: symex stalls, measured > 900 s); two or more connections in the same loop run "
                   "(measured: symex > 400 s without verdict); connections with services (disconnect, upd_services)",
           grid=[g(NCL=1, RDOFF=r, C19_MAXCHUNK=8, C19_NIO=1) for r in (0, 3, 8, 12)],
           remove_bodies=RB + ["vbi_proxyd_check_msg", "vbi_proxyd_take_message", "vbi_proxyd_update_services", "vbi_proxyd_channel_update", "vbi_proxyd_send_sliced"],
           reach=["end", "dropped", "survived"], timeout=300, mem_gb=3, vin_size=2048,
           **{k: v for k, v in common.items() if k not in ("remove_bodies", "ignore")}, ignore=UB_IGNORE + [r"no body for callee"]),
        Ob("msg_take", func="h_msg", unwind=6, unwindset=uw,
           desc="message robustness: vbi_proxyd_check_msg + vbi_proxyd_take_message (+ the glue of vbi_proxyd_handle_client_sockets, proxyd.c:2413-2428) on a fully "
                "symbolic message buffer (length, every body byte), message type case-split on the grid (all 9 request types + 'any other value'), in every connection "
                "state, from an arbitrary daemon state satisfying the invariant (one token owner per device, device open/closed consistent, queue well formed): all memory "
                "safety / overflow / assert() checks of the real code; a rejected message closes that connection and changes nothing else; an accepted one leaves a reply "
                "that fits msg_buf, keeps the invariant, touches no other client unless it is a channel message",
           encodes=["vbi_proxyd_check_msg", "vbi_proxyd_take_message", "vbi_proxyd_take_service_req", "vbi_proxyd_update_services", "vbi_proxy_start_acquisition",
                    "vbi_proxy_stop_acquisition", "vbi_proxy_queue_allocate", "vbi_proxy_queue_release_sliced", "vbi_proxyd_channel_update", "vbi_proxyd_channel_schedule",
                    "vbi_proxyd_token_grant", "vbi_proxyd_channel_flush", "vbi_proxyd_update_scanning", "vbi_proxyd_take_ioctl_req", "vbi_proxy_msg_check_ioctl",
                    "vbi_proxyd_close", "vbi_proxy_msg_write", "vbi_proxy_msg_close_io", "vbi_capture_* wrappers (inout.c)"],
           bounds="one message; 2 clients (acting client first or last in the list, the other on the same or the other device); CONNECT/SERVICE: strictness field "
                  "concrete from the grid (quick: -128,0,2,127 / -2,-1,2,3,23) or symbolic (thorough); device closed: outcome of opening it case-split (DEVCASE); " + WORLD +
                  "; histories of any length by induction over the invariant",
           assumes=INV + ["header as vbi_proxy_msg_handle_read leaves it: 8 <= len <= sizeof msg_buf (obligation read_framing)"],
           outside="acquisition-thread mode; raw (VBI_SLICED_VBI_625/525) buffers; clients asking for more than 1 buffer (allocation loop bound)",
           grid=msg_t, quick_grid=msg_q, reach=["end", "accepted", "rejected"], timeout=600, mem_gb=5, vin_size=4096, **common),
        Ob("msg_other", func="h_msg", unwind=6, unwindset=uw,
           desc="message robustness, every message type that is not a client request (MSGT=99: daemon-to-client types and all values >= MSG_TYPE_COUNT, type symbolic; "
                "MSGT=23: DAEMON_PID_CNF, which check_msg lets pass): rejected, connection closed, nothing else changes",
           encodes=["vbi_proxyd_check_msg", "vbi_proxyd_take_message", "vbi_proxyd_close", "vbi_proxy_queue_release_sliced"], bounds="as msg_take", assumes=INV,
           grid=[g(MSGT=99, NCL=2, ACT=0, BDEV=0, DEVOPEN=1, NQ=1), g(MSGT=23, NCL=2, ACT=0, BDEV=0, DEVOPEN=1, NQ=1)],
           reach=["end", "rejected"], timeout=300, mem_gb=3, vin_size=4096, **common),
        # ---- (3) token ----
        Ob("token_step", func="h_msg", unwind=6, unwindset=uw,
           desc="token exclusivity INV-STEP over 3 clients: from every state with at most one token owner per device, one message of any client (TOKEN_REQ with arbitrary "
                "priority/profile, NOTIFY with arbitrary flags, RECLAIM_CNF, CLOSE_REQ; message bytes symbolic) keeps 'at most one client of a device controls the channel' and "
                "'at most one token owner'; step relation (one-step history): a client that has the token (GRANTED / RECLAIM / RELEASE) loses it only by its own TOKEN_REQ, "
                "NOTIFY(RELEASE|TOKEN), RECLAIM_CNF or close; a client is newly granted only when nobody else still has the token, and only if it asked (valid profile, "
                "background priority); a client becomes channel owner (RETURNED) only from a state in which it was assigned the token",
           encodes=["vbi_proxyd_take_message", "vbi_proxyd_channel_update", "vbi_proxyd_channel_schedule", "vbi_proxyd_channel_stopped", "vbi_proxyd_channel_completed",
                    "vbi_proxyd_token_grant", "vbi_proxyd_get_token_owner", "vbi_proxyd_channel_timer_update", "vbi_proxyd_channel_flush", "vbi_proxyd_close"],
           bounds="one message; 3 clients, acting client at each list position, last client on the same or the other device; " + WORLD, assumes=INV,
           outside="more than 3 clients (scheduler comparisons are pairwise; not proved by the solver)",
           grid=tok_t, quick_grid=tok_q, reach=["end", "accepted"], timeout=400, mem_gb=3, vin_size=4096, **common),
        Ob("token_timer", func="h_timer", unwind=6, unwindset=uw,
           desc="token exclusivity INV-STEP, scheduler alarm: vbi_proxyd_channel_timer with a symbolic clock from every invariant state of 3 clients: invariant and step relation "
                "as token_step (nobody loses a token it holds except by reclaim, which keeps it assigned; grants only to clients that asked); only scheduler state changes",
           encodes=["vbi_proxyd_channel_timer", "vbi_proxyd_channel_update", "vbi_proxyd_channel_schedule", "vbi_proxyd_token_grant", "vbi_proxyd_channel_timer_update"],
           bounds="one timer event; " + WORLD, assumes=INV,
           grid=[g(NCL=3, BDEV=0, DEVOPEN=1, NQ=0), g(NCL=3, BDEV=1, DEVOPEN=1, NQ=0), g(NCL=2, BDEV=0, DEVOPEN=0, NQ=0)],
           reach=["end", "rescheduled"], timeout=300, mem_gb=3, vin_size=4096, **common),
        # ---- (2) disconnect ----
        Ob("disconnect", func="h_drop", unwind=6, unwindset=uw,
           desc="disconnect at any point: REAL vbi_proxyd_close on a client in every connection state / token state / queue cursor / I/O state, then the unlink step of "
                "vbi_proxyd_handle_client_sockets (proxyd.c:2516-2544 replicated, REAL vbi_proxyd_channel_update): socket closed once, write buffer dropped, all queue "
                "references released (queue invariant without the client: frames nobody else needs are free again, never both queued and free), the token it held is gone "
                "with it, no other client loses a token or any connection state, a client granted now had asked",
           encodes=["vbi_proxyd_close", "vbi_proxy_queue_release_sliced", "vbi_proxy_msg_close_io", "vbi_proxyd_channel_update", "vbi_proxyd_channel_schedule", "vbi_proxyd_token_grant"],
           bounds="3 clients, dropped client at each list position; NQ = 0..2 queued frames, cursors symbolic; " + WORLD, assumes=INV,
           outside="the list surgery of vbi_proxyd_handle_client_sockets itself is replicated in the harness here (it runs for real in event_loop, without services)",
           grid=[g(NCL=3, ACT=a, BDEV=b, DEVOPEN=1, NQ=q) for a in (0, 1, 2) for (b, q) in ((0, 0), (0, 1), (0, 2), (1, 1))] + [g(NCL=2, ACT=0, BDEV=0, DEVOPEN=0, NQ=0)],
           quick_grid=[g(NCL=3, ACT=0, BDEV=0, DEVOPEN=1, NQ=2), g(NCL=3, ACT=1, BDEV=0, DEVOPEN=1, NQ=1), g(NCL=3, ACT=2, BDEV=1, DEVOPEN=1, NQ=1),
                       g(NCL=2, ACT=0, BDEV=0, DEVOPEN=0, NQ=0)],
           reach=["end"], timeout=300, mem_gb=3, vin_size=4096, **common),
        Ob("upd_services", func="h_upd", unwind=6, unwindset=uw,
           desc="service re-computation after a client left: vbi_proxyd_update_services(dev, NULL, 0, NULL) (proxyd.c:2540) from every invariant state: requests, tokens and "
                "connections untouched, the device stays open exactly for the union of what is granted and is closed (buffers freed) when nothing is; invariant kept",
           encodes=["vbi_proxyd_update_services", "vbi_proxy_queue_allocate", "vbi_proxy_stop_acquisition", "vbi_proxy_start_acquisition", "vbi_proxyd_update_scanning"],
           bounds="2..3 clients; " + WORLD, assumes=INV,
           grid=[g(NCL=2, BDEV=0, DEVOPEN=1, NQ=1), g(NCL=3, BDEV=1, DEVOPEN=1, NQ=0), g(NCL=2, BDEV=0, DEVOPEN=1, NQ=2)],
           quick_grid=[g(NCL=2, BDEV=0, DEVOPEN=1, NQ=1), g(NCL=3, BDEV=1, DEVOPEN=1, NQ=0)],
           reach=["end", "open", "closed"], timeout=400, mem_gb=4, vin_size=4096, **common),
    ]
    return obs
