import os
from vlib.runner import Ob

# Proposed minimal patches for the defects the obligations below expose.  `C19_PROPOSED_PATCH=1 ./check C19`
# runs every obligation against scratch copies of the units with these substitutions applied (nothing under
# /repo is touched) - used to show that with the patches the obligations discharge.
PROPOSED_PATCH = {
    "daemon/proxyd.c": [
        # SERVICE_REQ: clamp the client supplied strictness before it is used as an array index (as CONNECT_REQ does)
        (r"(            if \( vbi_proxyd_take_service_req\(req, pBody->service_req\.services,)",
         "            if (pBody->service_req.strict < VBI_MIN_STRICT) pBody->service_req.strict = VBI_MIN_STRICT;\n"
         "            else if (pBody->service_req.strict > VBI_MAX_STRICT) pBody->service_req.strict = VBI_MAX_STRICT;\n\\1"),
    ],
}

M = ["c19_io.c"]
U = ["src/inout.c", "src/misc.c"]
STUBS = ["models/c19_io.c: recv/send/close (POSIX contract, results scripted from the symbolic input), time/alarm/getpid/perror/ioctl",
         "models/c19_io.c: capture device = vbi_capture object behind the REAL src/inout.c wrappers; vbi_capture_v4l2_new/v4l_new may fail; "
         "update_services grants an arbitrary subset; always VBI_FD_HAS_SELECT (no acquisition thread)",
         "vbi_proxy_msg_logger: empty body (real logger renamed, unused)", "pthread_mutex_*: flag + lock discipline assertions (solver build)"]
UB_IGNORE = [r"arithmetic overflow on signed - in p_walk->chn_profile\.min_duration"]


def obligations(tier, seed):
    patch = PROPOSED_PATCH if os.environ.get("C19_PROPOSED_PATCH") == "1" else None
    common = dict(harness="h_c19.c", units=U, models=M, stubs=STUBS, patch=patch, ignore=UB_IGNORE)
    uw = {"_vbi_strlcpy.0": 130, "memcmp.0": 18}
    names = {0: "CONNECT_REQ", 3: "CLOSE_REQ", 5: "SERVICE_REQ", 8: "CHN_TOKEN_REQ", 11: "CHN_NOTIFY_REQ", 14: "CHN_RECLAIM_CNF",
             15: "CHN_SUSPEND_REQ", 18: "CHN_IOCTL_REQ", 22: "DAEMON_PID_REQ", 99: "any other type"}
    msg_q = []
    for t in (0, 3, 5, 8, 11, 14, 15, 18, 22):
        msg_q.append(dict(MSGT=t, NCL=2, ACT=0, BDEV=0, DEVOPEN=1, NQ=1))
    for t in (0, 5, 11, 18):
        msg_q.append(dict(MSGT=t, NCL=2, ACT=1, BDEV=0, DEVOPEN=0, NQ=0))
    msg_t = list(msg_q)
    for t in (0, 3, 5, 8, 11, 14, 18):
        msg_t.append(dict(MSGT=t, NCL=2, ACT=1, BDEV=0, DEVOPEN=1, NQ=2))
        msg_t.append(dict(MSGT=t, NCL=2, ACT=0, BDEV=1, DEVOPEN=1, NQ=1))
    obs = [
        Ob("msg_take", func="h_msg", unwind=6, unwindset=uw,
           desc="message robustness: vbi_proxyd_check_msg + vbi_proxyd_take_message (+ the glue of vbi_proxyd_handle_client_sockets, proxyd.c:2413-2428) on a fully "
                "symbolic message buffer (length, every body byte), message type case-split on the grid (all 9 request types + 'any other value'), in every connection "
                "state, from an arbitrary daemon state satisfying the invariant (one token owner per device, device open/closed consistent, queue well formed): all memory "
                "safety / overflow / assert() checks of the real code; a rejected message closes that connection and changes nothing else; an accepted one leaves a reply "
                "that fits msg_buf, keeps the invariant, touches no other client unless it is a channel message",
           encodes=["vbi_proxyd_check_msg", "vbi_proxyd_take_message", "vbi_proxyd_take_service_req", "vbi_proxyd_update_services", "vbi_proxy_start_acquisition",
                    "vbi_proxy_stop_acquisition", "vbi_proxy_queue_allocate", "vbi_proxy_queue_release_sliced", "vbi_proxyd_channel_update", "vbi_proxyd_channel_schedule",
                    "vbi_proxyd_token_grant", "vbi_proxyd_channel_flush", "vbi_proxyd_update_scanning", "vbi_proxyd_take_ioctl_req", "vbi_proxy_msg_check_ioctl",
                    "vbi_proxyd_close", "vbi_proxy_msg_write", "vbi_proxy_msg_close_io", "vbi_capture_* wrappers (inout.c)"],
           bounds="one message; 2 clients (acting client first or last in the list, the other on the same or the other device); device 0 open with 2 frame buffers "
                  "(0..2 queued, cursors symbolic) or closed; -buffers 1; clients ask for <= 2 buffers; clock in [0,2^32); histories of any length by induction over the invariant",
           assumes=["daemon invariant between events (asserted again after the step): <=1 token owner per device, cycle_count in 0..2, device/queue consistency, "
                    "WAIT_CON_REQ clients as vbi_proxyd_add_connection leaves them", "header as vbi_proxy_msg_handle_read leaves it: 8 <= len <= sizeof msg_buf (obligation read_framing)"],
           outside="acquisition-thread mode; more than 2 clients (token obligations use 3); raw (VBI_SLICED_VBI_625/525) buffers",
           grid=msg_t, quick_grid=msg_q, reach=["end", "accepted", "rejected"], timeout=400, mem_gb=4, vin_size=4096, **common),
        Ob("msg_other", func="h_msg", unwind=6, unwindset=uw, defines=dict(MSGT=99, NCL=2, ACT=0, BDEV=0, DEVOPEN=1, NQ=1),
           desc="message robustness, every message type that is not a client request (daemon-to-client types and all values >= MSG_TYPE_COUNT, type symbolic): "
                "rejected, connection closed, nothing else changes",
           encodes=["vbi_proxyd_check_msg", "vbi_proxyd_close", "vbi_proxy_queue_release_sliced"], bounds="as msg_take",
           reach=["end", "rejected"], timeout=300, mem_gb=3, vin_size=4096, **common),
    ]
    return obs
