"""C04 - raw VBI decoding recovers every standard signal bit-exactly, on the right line.

pre_run(runner) builds models/c04_gen.c natively (gcc, linked with the REAL src/io-sim.c) and runs it once per
waveform configuration: it derives per-sample tables from the real vbi_raw_vbi_image() and validates them on 260
payloads; the tables are written as headers into the runner's work directory and handed to the harness through
-DC04_TAB="<path>".  If the generator fails (table model invalid) no header exists, the obligation does not build and
is reported inconclusive - never discharged."""
import os, subprocess
from vlib.runner import Ob, REPO, VERIF

# service -> (id, scanning, line, payload bits, signal start us (for the offset grid))
SVCS = {   # ids: src/sliced.h
    "ttx_b": (0x3, 625, 7, 336), "ttx_b_f2": (0x3, 625, 320, 336), "ttx_a": (0x2000, 625, 7, 296), "ttx_c_625": (0x4000, 625, 8, 264),
    "vps": (0x4, 625, 16, 104), "wss": (0x400, 625, 23, 14), "cc_625": (0x8, 625, 22, 16), "cc_625_f2": (0x10, 625, 335, 16),
    "cc_525": (0x20, 525, 21, 16), "cc_525_f2": (0x40, 525, 284, 16),
    "ttx_b_525": (0x10000, 525, 15, 272), "ttx_c_525": (0x100, 525, 15, 264), "ttx_d_525": (0x20000, 525, 15, 272),
}
# pixel format -> (enum, bytes per sample, luma/green byte, extra defines)
PIX = {
    "Y8": ("VBI_PIXFMT_YUV420", 1, 0, {}), "YUYV": ("VBI_PIXFMT_YUYV", 2, 0, {}), "UYVY": ("VBI_PIXFMT_UYVY", 2, 1, {}),
    "RGB24": ("VBI_PIXFMT_RGB24", 3, 1, {}), "RGBA32_LE": ("VBI_PIXFMT_RGBA32_LE", 4, 1, {}),
    "RGB16_LE": ("VBI_PIXFMT_RGB16_LE", 2, 0, {"RGB16": 1}), "RGB16_BE": ("VBI_PIXFMT_RGB16_BE", 2, 0, {"RGB16": 2}),
}
_WAVE_OBS = []
_GEN = {}


NOFRC = ("vps", "wss")   # payload follows the run-in directly: case split on the first transmitted bit (FIXVAL)


def wave_gps(svc, rate, spl, off_us, pix="Y8", ilace=0):
    """one grid point, or two (FIXVAL=0/1) for the services without framing code"""
    if svc in NOFRC:
        return [dict(wave_gp(svc, rate, spl, off_us, pix, ilace), FIXVAL=v) for v in (0, 1)]
    return [wave_gp(svc, rate, spl, off_us, pix, ilace)]


def wave_gp(svc, rate, spl, off_us, pix="Y8", ilace=0):
    sid, scanning, line, nbits = SVCS[svc]
    enum, bps, goff, extra = PIX[pix]
    off = int(off_us * 1e-6 * rate)
    f2 = (line >= 312) if scanning == 625 else (line >= 263)
    img = 2 * spl * bps
    key = "%s_%d_%d_%d" % (svc, rate, spl, off)
    # C04_TAB is replaced by the path of the generated header in pre_run (kept short: it is part of the instance name)
    g = dict(C04_WAVE=1, C04_TAB=key, FMT=enum, BPS=bps, GOFF=goff, ILACE=ilace,
             VIN_SIZE=max(img + 2, (nbits + 7) // 8 + 192 + (img if bps > 1 else 0) + 16))
    g.update(extra)
    _GEN[key] = [str(x) for x in (sid, scanning, rate, spl, off, line, nbits)]
    return g


def pre_run(r):
    """native pre-step: build the table generator against the real io-sim.c, run it per configuration"""
    exe = os.path.join(r.work, "c04_gen")
    srcs = [os.path.join(VERIF, "models", "c04_gen.c")] + [os.path.join(REPO, "src", u) for u in
            ("io-sim.c", "decoder.c", "raw_decoder.c", "bit_slicer.c", "sampling_par.c", "misc.c", "hamm.c")]
    cmd = ["gcc", "-O1", "-w", "-DHAVE_CONFIG_H", "-D_GNU_SOURCE", "-D_REENTRANT", "-I" + REPO, "-I" + REPO + "/src"] + srcs + \
          ["-lm", "-lpthread", "-o", exe]
    p = subprocess.run(cmd, stdout=subprocess.PIPE, stderr=subprocess.STDOUT)
    if p.returncode != 0:
        r.log("[C04] table generator build FAILED (waveform obligations will be inconclusive):\n" + p.stdout.decode()[-600:])
        return
    done = {}
    for ob in _WAVE_OBS:
        for grid in (ob.grid, ob.quick_grid or []):
            for g in grid:
                key = g["C04_TAB"]
                if key not in _GEN:
                    continue
                path = os.path.join(r.work, "%s.h" % key)
                if key not in done:
                    q = subprocess.run([exe] + _GEN[key] + [path], stdout=subprocess.PIPE, stderr=subprocess.STDOUT)
                    done[key] = q.returncode
                    if q.returncode != 0:
                        r.log("[C04] table generator FAILED for %s: %s" % (key, q.stdout.decode()[-300:]))
                        try:
                            os.unlink(path)
                        except OSError:
                            pass
                g["C04_TAB"] = '"%s"' % path
    r.log("[C04] pre_run: %d waveform tables from the real vbi_raw_vbi_image() (validated natively), %d failed" % (
        len(done), len([k for k, v in done.items() if v != 0])))


def obligations(tier, seed):
    del _WAVE_OBS[:]
    U = ["src/bit_slicer.c", "src/sampling_par.c", "src/misc.c"]
    obs = []
    wave_desc = ("nominal waveform of the REAL reference transmitter (tables from vbi_raw_vbi_image, validated natively at check time) with ALL payload "
                 "bits symbolic (and all chroma / red / blue / alpha bytes arbitrary), rendered on one row of a two-row image (other row blank): the REAL "
                 "vbi3 raw decoder (init, add_services incl. sampling_par admission and bit slicer set-up, decode) returns exactly one record, with the "
                 "transmitted service id only, the ITU-R line number of the row, every payload bit equal to the transmitted bit, and nothing written "
                 "beyond that record")

    def wave_ob(name, pix, spl, grid, quick_grid, tier_="quick", timeout=1200):
        enum, bps, goff, extra = PIX[pix]
        ob = Ob(name, harness="h_c04.c", func="h_wave", unwind=max(spl + 2, 66), desc=wave_desc, tier=tier_,
                encodes=["_vbi3_raw_decoder_init", "vbi3_raw_decoder_add_services", "_vbi_sampling_par_check_services_log", "vbi3_bit_slicer_set_params",
                         "vbi3_raw_decoder_decode", "decode_pattern", "vbi3_bit_slicer_slice", "bit_slicer_* (format of the instance)",
                         "vbi_raw_vbi_image (native, tables)"],
                bounds="all payloads of one line; (service, sampling rate, samples per line, offset, pixel format) enumerated on the grid - rate/offset "
                       "are sampled, not proved; one service requested at a time; strict = 0; %d samples per line, format %s; VPS/WSS: exhaustive "
                       "case split on the first transmitted payload bit (FIXVAL on the grid); RGB16: red and blue bits 0, other formats: non-luma/green bytes arbitrary" % (spl, pix),
                outside="noise, non-nominal amplitude, rates/offsets between grid points, several services on one frame, more than two rows, "
                        "Teletext D 625 (needs lines sampled beyond 63 us), 2xCaption, "
                        "the legacy vbi_raw_decode wrapper (mutex + the same vbi3 decoder)",
                stubs=["models/c04_gen.c: waveform tables T[i][<= 2 payload bits] derived from the real generator as a black box, cross-checked on 260 payloads"],
                # the image array must be field sensitive so that the CRI search runs on the constant run-in samples
                flags=["--max-field-sensitivity-array-size", str(2 * spl * bps + 1)],
                grid=grid, quick_grid=quick_grid, reach=["end"], timeout=timeout, mem_gb=3, units=U, solver="cadical")
        _WAVE_OBS.append(ob)
        return ob

    q = wave_gps("ttx_b", 13500000, 720, 9.7) + wave_gps("cc_525", 13500000, 720, 9.0) + wave_gps("vps", 13500000, 720, 9.7)
    t = list(q)
    for s_, o in (("ttx_b_f2", 9.7), ("ttx_a", 9.7), ("ttx_c_625", 9.7), ("wss", 9.7), ("cc_625", 9.7), ("cc_625_f2", 9.7),
                  ("cc_525_f2", 9.0), ("ttx_b_525", 9.0), ("ttx_c_525", 9.0), ("ttx_d_525", 9.0), ("ttx_b", 8.5), ("ttx_b", 10.2), ("vps", 11.0)):
        t += wave_gps(s_, 13500000, 720, o)
    obs.append(wave_ob("wave_y8_13m5", "Y8", 720, t, q))
    # other pixel formats (chroma / red / blue / alpha arbitrary) and sampling rates: thorough
    for pix in ("YUYV", "RGB24", "RGB16_LE"):
        obs.append(wave_ob("wave_%s_13m5" % pix.lower(), pix, 720,
                           wave_gps("ttx_b", 13500000, 720, 9.7, pix) + wave_gps("vps", 13500000, 720, 9.7, pix)
                           + wave_gps("cc_525", 13500000, 720, 9.0, pix), None, tier_="thorough", timeout=1800))
    obs.append(wave_ob("wave_y8_14m75", "Y8", 768, sum([wave_gps(s_, 14750000, 768, 9.5) for s_ in ("ttx_b", "vps", "wss", "cc_625")], []), None,
                       tier_="thorough", timeout=1800))
    obs.append(wave_ob("wave_y8_27m", "Y8", 1440, sum([wave_gps(s_, 27000000, 1440, 9.7) for s_ in ("ttx_b", "vps")], []), None,
                       tier_="thorough", timeout=2400))

    # ---- line numbers / pattern table (solver over configurations) ------------------------------------------
    KN = {} if os.environ.get("VERIF_C04_STRICT") == "1" else {"KNOWN_LINES_NO_OVERLAP": 1}
    UP = ["src/sampling_par.c", "src/misc.c"]
    stub = ["models/c05_slicer_stub.h: bit slicer interface replaced by its contract (not exercised by these obligations except set_params in none)"]
    obs.append(Ob("lines_containing_data", harness="h_c04.c", func="h_lines", unwind=22, defines=KN,
                  desc="lines_containing_data with symbolic sampling parameters accepted by _vbi3_raw_decoder_init (scanning, format, rate, offset, both start "
                       "lines, synchronous flag) and any row of the REAL service table: the two row ranges lie inside the rows of their field, and (line numbers "
                       "known) a row is selected iff its ITU-R line is inside the service's first..last range of that field"
                       + ("" if not KN else " [KNOWN_LINES_NO_OVERLAP: or the service's range misses every sampled line of the field, then all rows are kept]"),
                  encodes=["lines_containing_data", "_vbi3_raw_decoder_init", "_vbi_sampling_par_valid_log", "_vbi_service_table"],
                  bounds="line counts (count[0], count[1]) on the grid 1..3; everything else symbolic",
                  assumes=list(KN), stubs=stub, grid=[dict(C0=a, C1=b) for a in (1, 2, 3) for b in (1, 2, 3)],
                  quick_grid=[dict(C0=2, C1=2), dict(C0=1, C1=3)], reach=["end", "called"], timeout=300, mem_gb=3, vin_size=64, units=UP, solver="cadical"))
    gj = []
    for (c0, c1) in ((1, 1), (2, 1), (1, 2)):
        for n0 in range(c0 + 1):
            for s0 in range(c0 - n0 + 1):
                for n1 in range(c1 + 1):
                    for s1 in range(c0, c0 + c1 - n1 + 1):
                        if n0 == 0 and s0 > 0 or n1 == 0 and s1 > c0:
                            continue
                        gj.append(dict(C0=c0, C1=c1, S0=s0, N0=n0, S1=s1, N1=n1))
    obs.append(Ob("add_job_to_pattern", harness="h_c04.c", func="h_add_job", unwind=8 * 3 + 4, defines=KN,
                  desc="INV-STEP: add_job_to_pattern on an ARBITRARY pattern table satisfying the representation invariant (entries <= n_jobs; first or last "
                       "way of every row is not a job), any job number, row ranges as produced by lines_containing_data: invariant preserved on success AND "
                       "on the out-of-space failure path, the job is present in every row of the ranges, rows outside are untouched, no other job is dropped",
                  encodes=["add_job_to_pattern"], bounds="2..3 rows, row ranges enumerated on the grid, table content / job number / n_jobs symbolic",
                  assumes=["st_pat_inv (initial: zero table; preserved: this obligation, remove_job_from_pattern, C05 decode_out)"], stubs=stub,
                  grid=gj, quick_grid=[dict(C0=1, C1=1, S0=0, N0=1, S1=1, N1=1), dict(C0=2, C1=1, S0=1, N0=1, S1=2, N1=0)],
                  reach=["end", "added", "no_space"], timeout=300, mem_gb=3, vin_size=64, units=UP, solver="cadical"))
    obs.append(Ob("remove_job_from_pattern", harness="h_c04.c", func="h_remove_job", unwind=20, defines=dict(KN, C0=1, C1=0),
                  desc="INV-STEP: remove_job_from_pattern on an arbitrary pattern row satisfying the invariant: invariant preserved for one job less, the job is "
                       "gone, higher jobs renumbered, order of the others kept, row zero filled",
                  encodes=["remove_job_from_pattern"],
                  bounds="one row (the function treats rows independently; with two rows CBMC does not reset the inner loop's unwind counter between rows "
                         "and reports a spurious unwinding failure)",
                  outside="job array compaction in vbi3_raw_decoder_remove_services (path dependent memmove length: 174 s, 6.4 GB, killed)",
                  assumes=["st_pat_inv"], stubs=stub, reach=["end", "called"], timeout=120, mem_gb=2, vin_size=64, units=UP, solver="cadical"))
    from vlib.props._c04jobs import jobs_obs
    obs += jobs_obs()
    # ---- search window maximal (the counterpart of C05 params_lemma) -------------------------------------------
    # rows of the real service table and the admission limit of _vbi_sampling_par_permit_service (as C05.ROWS)
    WROWS = {0: 9304687, 2: 10406250, 3: 8601562, 4: 8464180, 5: 7500000, 7: 5000000, 8: 1500000,
             11: 8590908, 12: 8590908, 13: 8590908, 14: 1510464, 16: 1510464}
    gw = [dict(ROW=r, FMT=f, RATE_MIN=WROWS[r], RATE_MAX=1 << 27) for r in sorted(WROWS) for f in ("VBI_PIXFMT_YUV420", "VBI_PIXFMT_RGB16_LE")]
    obs.append(Ob("search_window_maximal", harness="h_c04_slicer.c", func="h_window_maximal", unwind=2,
                  desc="vbi3_bit_slicer_set_params called exactly as vbi3_raw_decoder_add_services does for one row of the REAL _vbi_service_table with symbolic "
                       "sampling_rate, samples_per_line and sample_offset: whenever the parameters are accepted the CRI search window is not empty and MAXIMAL - "
                       "a signal recognised at the first position that is not searched would either need a sample beyond the line for its last bit "
                       "(interpolation neighbour; 16 sample window of the low pass slicer) or its last bit cell ends behind the line; so every horizontal offset "
                       "that keeps the signal inside the line (and samplable inside the line, C05) keeps its run-in inside the search window",
                  encodes=["vbi3_bit_slicer_set_params", "_vbi_service_table"],
                  bounds="sampling_rate in [admission limit of the service, 2^27] Hz, samples_per_line <= 4096, sample_offset < 65536; service row and pixel "
                         "format (generic / low pass slicer) on the grid; sampling scheme t_k = p + (phase_shift + k step)/256 as tied to the real loops by C05 slicer_exact",
                  outside="that the nominal signal is recognised AT the position the scheme assumes (wave_* obligations at the grid offsets); cri_end other than ~0",
                  grid=gw, quick_grid=[g for g in gw if g["ROW"] in (2, 5, 8) and g["FMT"] == "VBI_PIXFMT_YUV420"],
                  reach=["end", "accepted", "rejected"], timeout=600, mem_gb=4, vin_size=64, units=["src/raw_decoder.c", "src/sampling_par.c", "src/misc.c"],
                  solver="cadical", stubs=["_vbi_log_printf not reached (log mask 0)"]))

    # ---- legacy bit slicer ------------------------------------------------------------------------------------------
    # A relational obligation "legacy_format_invariance" (harness/h_c04_legacy.c h_legacy_format_invariance: one arbitrary luma line sliced as Y8 and packed
    # into YUYV/RGB24/RGBA32 with arbitrary chroma - same verdict, same payload) was built and DROPPED: no verdict in 300 s (cadical) at 40 and at 24
    # samples per line - the equivalence of the two threshold-adaptation multiplier chains is not found by the SAT solver.  What remains decidable is the
    # unit obligation on sample() below; the CRI search loop of the legacy template with packed formats is covered for memory safety only (C05).
    obs.append(Ob("legacy_sample_interpolation", harness="h_c04_legacy.c", func="h_legacy_sample", unwind=8,
                  desc="sample() of the legacy slicer (FRC/payload sampling, 8 bit formats) on arbitrary pixels and an arbitrary 24.8 position: the value is the linear "
                       "interpolation between the luma/green byte of pixel offs>>8 and of the NEXT PIXEL, independent of the other bytes of the pixels",
                  encodes=["sample"], bounds="bytes per pixel 1..4 on the grid, 6 pixels, every position", outside="15/16 bit formats",
                  grid=[dict(BPS=b) for b in (1, 2, 3, 4)], reach=["end"], timeout=120, mem_gb=2, vin_size=64, solver="cadical",
                  units=["src/raw_decoder.c", "src/bit_slicer.c", "src/sampling_par.c", "src/misc.c"],
                  ignore=[r"decoder\.c:vbi_bit_slicer_init:shift distance too large"]))

    # ---- decode_pattern keeps the jobs of a row (learned per-line pattern = state across frames) --------------------
    obs.append(Ob("decode_keeps_row_jobs", harness="h_c05_out.c", func="h_decode_out", unwind=60, unwindset={"decode_pattern.1": 9},
                  desc="REAL vbi3_raw_decoder_decode on a symbolic pattern table (representation invariant), job table, slicer verdicts (stub) - the C05 decode_out "
                       "harness: the 'try the found service first next time' bookkeeping only PERMUTES a row - no job is dropped from a scan line, duplicated or moved "
                       "to another line -, so over any history of frames every requested service stays searched on the lines it was admitted to "
                       "(tags no_job_dropped_from_row, row_job_count_unchanged, no_job_migrates_between_rows, pattern_invariant_preserved)",
                  encodes=["vbi3_raw_decoder_decode", "decode_pattern"],
                  bounds="1..2 scan lines, 8 ways, any pattern satisfying the invariant; histories of any length by induction over the invariant",
                  stubs=["models/c05_slicer_stub.h: bit slicer replaced by its contract"],
                  assumes=["pattern table invariant st_pat_inv", "sampling parameters accepted by _vbi_sampling_par_valid_log"],
                  grid=[dict(LINES=2, ILACE=0, C0=1), dict(LINES=1, ILACE=0, C0=0), dict(LINES=1, ILACE=0, C0=1)], quick_grid=[dict(LINES=1, ILACE=0, C0=0)],
                  reach=["end", "output_full", "two_records"], timeout=900, mem_gb=3, vin_size=512,
                  noflags=["--pointer-overflow-check"], units=["src/sampling_par.c", "src/misc.c"]))
    return obs
