# TEMPORARY test driver for vlib/props/_c02fmt.py (the real entry point is C02.py, owned elsewhere)
from vlib.props._c02fmt import fmt_obs


def obligations(tier, seed):
    return list(fmt_obs().values())
