import re
from vlib.runner import Ob


# ---- scratch copies regenerated from the CURRENT /repo source on every run (runner: patch={rel: callable}) ----
def _cc_h_small(txt):
    """src/cc.h without the two display pages per caption channel (157 KB of struct caption the XDS code never names)"""
    new, n = re.subn(r"\n[ \t]*vbi_page[ \t]+pg\[2\];", "\n\t/* vbi_page pg[2]: carved out for the C09 XDS obligations */", txt)
    if n != 1:
        raise RuntimeError("C09: member 'vbi_page pg[2]' of cc_channel not found in src/cc.h")
    return new


def _caption_xds_part(txt):
    """src/caption.c up to (not including) itv_separator(): file head, caption_send_event and the whole XDS part, verbatim"""
    k = txt.find("\nstatic void\nitv_separator")
    if k < 0:
        raise RuntimeError("C09: itv_separator() not found in src/caption.c")
    head = txt[:k] + "\n"
    for fn in ("xds_strfu", "flush_prog_info", "xds_decoder", "xds_separator", "caption_send_event"):
        if not re.search(r"^%s\s*\(" % fn, head, re.M):
            raise RuntimeError("C09: %s() not found before itv_separator() in src/caption.c" % fn)
    return head


def _caption_full_decoder_stubbed(txt):
    """the complete src/caption.c, only the definition of xds_decoder() replaced by a prototype"""
    new, n = re.subn(r"\nstatic inline void\nxds_decoder\(.*?\n\}\n",
                     "\nstatic void xds_decoder(vbi_decoder *vbi, int _class, int type, uint8_t *buffer, int length);\n", txt, count=1, flags=re.S)
    if n != 1:
        raise RuntimeError("C09: definition of xds_decoder() not found in src/caption.c")
    return new


def _dec_grid(classes, types, lens):
    return [dict(XCLS=c, XTYP="0x%02X" % t, XLEN=l) for c in classes for t in types for l in lens]


def obligations(tier, seed):
    U = ["src/hamm.c"]
    common = dict(harness="h_c09.c", units=U, stubs=["_vbi_log_printf unused (log macro off)"])
    vin_step = 6816
    SMALL_STUBS = ["struct teletext carved out of vbi_decoder (include guard TELETEXT_H + dummy)",
                   "src/cc.h: scratch copy of the current file with cc_channel.pg[2] (display pages, 157 KB of struct caption, never named by the XDS code) removed",
                   "src/caption.c: scratch copy of the current file cut before itv_separator() (head + caption_send_event + XDS part verbatim; display/ITV code left out)",
                   "pthread mutex: flag + lock-discipline assertions"]
    small = dict(harness="h_c09b.c", units=U, solver="cadical", flags=["--max-field-sensitivity-array-size", "24"])
    # ---- xds_decoder grids: class x type x length, all concrete; payload and decoder state symbolic ----
    str_types01 = [3, 4] + list(range(0x10, 0x18))
    str_lens = [1, 2, 3, 15, 16, 17, 31, 32]
    # slowest first (the runner starts instances in grid order)
    dec_q = (_dec_grid([2], [1], [2]) + _dec_grid([0], [3], [32, 2]) + _dec_grid([0], [0x10, 0x17], [32]) + _dec_grid([2], [2], [32]) + _dec_grid([0], [7], [8])
             + _dec_grid([0], [1], [4]) + _dec_grid([0], [2], [2, 6]) + _dec_grid([0], [4], [32]) + _dec_grid([0], [5, 6], [2]) + _dec_grid([0], [8], [1]) + _dec_grid([0], [9], [3])
             + _dec_grid([1], [9], [2]) + _dec_grid([1], [3], [3]) + _dec_grid([2], [3], [2]) + _dec_grid([3], [1], [6]))
    dec_t = list(dec_q)
    for c in (0, 1):
        dec_t += _dec_grid([c], str_types01, str_lens)
        dec_t += _dec_grid([c], [t for t in range(0x18) if t not in str_types01], [1, 2, 3, 4, 5, 6, 8, 9, 32])
    dec_t += _dec_grid([1], [3], [31]) + _dec_grid([2], [1, 2], str_lens) + _dec_grid([2], [t for t in range(0x18) if t not in (1, 2)], [1, 2, 3, 32])
    dec_t += _dec_grid([3], range(0x18), [1, 2, 6, 32])
    seen = set(); dec_t = [g for g in dec_t if not (tuple(sorted(g.items())) in seen or seen.add(tuple(sorted(g.items()))))]
    # ---- step grids; see the harness comments for the encodings.  Measured (cadical, 5 instances in parallel on a shared machine):
    # xds_demux_step: parity/caption/unknown-class 44-75 s, terminator 25-28 s and content 41-46 s per CURC, accepted header 12-13 s, rejected header 64-97 s;
    # separator: 22-59 s; before the restructuring: 80-1470 s, terminator no verdict in 1200 s ----
    def cur(v, split=False):
        return [dict(C1FIX=v, CURC=k) for k in range(4)] if split else [dict(C1FIX=v)]
    hdr_codes = ["0x%02X" % v for v in range(1, 9)]
    step_q = (cur("-0x41") + cur("0x0B") + cur("0x14") + cur("0x0F", True) + cur("0x41", True)
              + [dict(C1FIX=v, C2K=1) for v in hdr_codes])
    step_q = [dict(C1FIX=v, C2K=3) for v in ("0x01", "0x08")] + step_q          # slowest first
    step_t = (step_q + cur("-0x01") + cur("0x00") + cur("0x09") + cur("0x0E") + cur("0x10") + cur("0x1F") + cur("0x20", True) + cur("0x7F", True)
              + [dict(C1FIX=v, C2K=3) for v in ("0x02", "0x03", "0x04", "0x05", "0x06", "0x07")])
    sep_q = (cur("-0x41") + cur("0x09") + cur("0x0F", True) + cur("0x41", True) + [dict(C1FIX=v, C2K=1) for v in ("0x01", "0x02", "0x07", "0x08")] + [dict(C1FIX="0x01", C2K=2, CURC=k) for k in (0, 3)])
    sep_t = (sep_q + cur("-0x01") + cur("0x0D") + cur("0x0E") + cur("0x20", True) + cur("0x7F", True)
             + [dict(C1FIX=v, C2K=1) for v in ("0x03", "0x04", "0x05", "0x06")] + [dict(C1FIX="0x01", C2K=2, CURC=k) for k in (1, 2)] + [dict(C1FIX=v, C2K=2, CURC=k) for v in hdr_codes if v != "0x01" for k in range(4)])
    return [
        Ob("xds_demux_step", func="h_xds_step", unwind=40, solver="cadical", flags=["--max-field-sensitivity-array-size", "24"],
           desc="INV-STEP + step contract: from every demux state satisfying the invariant (slot counts in {0} u [2,34]; curr_sp NULL or the started slot named by "
                "curr.xds_class/subclass, class <= MISC) one byte pair (first byte = grid value incl. a parity error) yields exactly the "
                "EIA-608 reassembly step: parity error/unknown header/caption code end the current packet, start resets the named slot, continue resumes a started one "
                "under its own class/type, content appends (discarded beyond 32 bytes), terminator delivers iff checksum good and >= 1 byte, with class/type of the packet, "
                "length, bytes, NUL terminated; no other slot of the 168 is ever touched; invariant preserved; all array/pointer checks on the exact-size demux object",
           encodes=["vbi_xds_demux_feed", "vbi_unpar8"],
           bounds="one step; state fully symbolic (6792-byte image); first byte case-split on the grid (C1FIX: every dispatch class of the switch, both parities of header codes, "
                  "invalid classes); second byte symbolic; headers of a stored class are split into C2K=1 all 32 accepted types (one call site each) and C2K=3 every "
                  "other second byte (rejected type or parity error); CURC = class of the current packet where the "
                  "instance is split by it (the case 'no current packet' is in every instance); histories of any length by induction over the stated invariant "
                  "(initial: xds_demux_init)",
           assumes=["representation invariant (shown initial by xds_demux_init, inductive by this obligation), assumed only for the slot(s) the step can depend on"],
           grid=step_t, quick_grid=step_q,
           reach=["end", "cur", "key"], timeout=800, mem_gb=4, vin_size=vin_step, **common),
        Ob("xds_demux_init", func="h_xds_init", unwind=40, nafs=True, vin_size=vin_step,
           desc="INIT |= invariant: _vbi_xds_demux_init on dirty memory establishes the invariant used by xds_demux_step",
           encodes=["_vbi_xds_demux_init", "vbi_xds_demux_reset"], bounds="none", timeout=120, **common),
        # xds_sender_seq / xds_overlong (harness functions h_xds_sender, h_xds_overlong: reference sender multiplexing two packets with caption
        # data under a symbolic schedule) are NOT registered: measured 1375 s symex, 1.2 M steps, 17.6 GB at 9 byte pairs with
        # --max-field-sensitivity-array-size 24, out of memory at 11 GB with --no-array-field-sensitivity.  Sequences are covered by induction
        # over the step contract instead (DESIGN 0.3 C09).
        Ob("caption_xds_separator_step", harness="h_c09b.c", func="h_xdssep_step", units=U, unwind=40, unwindset={"sep_hdr_sites.0": 130}, solver="cadical",
           flags=["--max-field-sensitivity-array-size", "24"], defines={"C09_DECODER_STUB": 1}, patch={"src/caption.c": _caption_full_decoder_stubbed},
           desc="INV-STEP on the service decoder's own xds_separator (complete caption.c, real struct caption inside vbi_decoder): arbitrary sub-packet table satisfying the "
                "invariant, one byte pair (first byte on the grid): same reassembly contract as the stand-alone demultiplexer (append, discard beyond 32 bytes, parity error "
                "ends and clears the packet, a header that is not stored deselects, an interrupted packet stays resumable, none of the other 95 slots touched) and the exact "
                "hand-over to xds_decoder: called iff terminator with good checksum and >= 1 byte, with the slot's class/type, its length (1..32: the decoder's entry "
                "assertion) and bytes, caption mutex held; no signed overflow of the int checksum",
           encodes=["xds_separator"],
           bounds="one step; first byte case-split (C1FIX); sub-packet table (3840 bytes) and current-packet selection symbolic; second byte symbolic, for headers of a stored "
                  "class (0x01-0x08): C2K=1 every second byte with good parity (one call site each), C2K=2 two second bytes with a parity error (0x00, 0x41); CURC = class of "
                  "the current packet where the instance is split by it",
           stubs=["struct teletext carved out of vbi_decoder (include guard TELETEXT_H + dummy)", "pthread mutex: flag + lock-discipline assertions",
                  "xds_decoder: body replaced (scratch copy of the current caption.c) by a logging stub carrying its entry contract assert(length > 0 && length <= 32); the real "
                  "body is decided by caption_xds_decoder for every (class, type, length) handed over (assume-guarantee)"],
           assumes=["invariant: counts in {0} u [2,34], 0 <= chksum <= 127*count (0 if empty), curr_sp NULL or a started slot; assumed only for the slot(s) the step depends on",
                    "first byte as vbi_decode_caption hands it over (parity error, 0x01..0x0F, >= 0x20)"],
           outside="field-2 routing in vbi_decode_caption (which pairs reach the separator); second bytes with a parity error other than the two listed",
           grid=sep_t, quick_grid=sep_q,
           reach=["end", "cur", "key"], timeout=700, mem_gb=4, vin_size=4096),
        # Defect of the pinned tree, repaired by a fix commit in /repo: caption.c xds_decoder(), class FUTURE type 0x09 (aspect ratio) stored into
        # vbi->prog_info[0].aspect (the CURRENT programme), set aspect_source = 3 and raised VBI_EVENT_ASPECT.  Decided by the instances [XCLS=1,XTYP=0x09,*]
        # (VP:dec_frame_decoder_head: a future-class packet leaves the current programme's record alone).
        Ob("caption_xds_decoder", func="h_xdsdec", unwind=70, unwindset={"frame_head.0": 2000, "xds_decoder.4": 42},
           defines={"C09_SMALL_CC": 1},
           patch={"src/cc.h": _cc_h_small, "src/caption.c": _caption_xds_part},
           desc="xds_decoder for one (class, type, length) per instance, payload, programme information of both classes, network record and info_cycle arbitrary: "
                "every write inside the record of that class / the network record (frame over the decoder head and the caption channels written in the harness); "
                "title, description lines, network name and call letters equal the payload (leading blanks skipped, control codes as blanks, NUL terminated), other "
                "lines/strings kept; PIN, length/elapsed, CGMS-A, programme type ids, tape delay equal the EIA-608 fields, invalid PIN/length ignored; only ASPECT/PROG_INFO "
                "(carrying the class's record) resp. NETWORK/NETWORK_ID events, sent with the caption mutex released and re-taken",
           encodes=["xds_decoder", "xds_strfu", "flush_prog_info", "caption_send_event"],
           bounds="class, type, length on the grid (quick: one instance per switch arm at its characteristic length; thorough: classes 0..3 x types 0..0x17, lengths "
                  "1 2 3 15 16 17 31 32 for the string/list types, 1-6 8 9 32 for the others)",
           stubs=SMALL_STUBS + ["vbi_send_event: log + asserts the caption mutex is released", "vbi_reset_prog_info: local copy of the vbi.c function", "vbi_chsw_reset: call counter"],
           assumes=["network call letters NUL terminated within their 40 bytes (only ever written by xds_strfu with <= 32 bytes)", "prog_info[i].future == i (set at initialisation)",
                    "language pointers NULL or one of the decoder's own strings", "all four XDS related events enabled in event_mask"],
           outside="rating / audio / caption-services / aspect content (memory safety and frame only); the repeat rule (second identical occurrence) is not compared with a reference",
           grid=dec_t, quick_grid=dec_q, reach=["end"], timeout=900, mem_gb=4, vin_size=1600, **small),    # caps double as start order: the runner starts the highest cap first
    ]
