from vlib.runner import Ob


def obligations(tier, seed):
    U = ["src/hamm.c"]
    common = dict(harness="h_c09.c", units=U, stubs=["_vbi_log_printf unused (log macro off)"])
    vin_step = 6816
    sender_grid_q = [dict(CLS1=0, TYP1=1, CLS2=0, TYP2=2, N1=3, N2=2, KSLOTS=9),
                     dict(CLS1=0, TYP1=3, CLS2=3, TYP2=0x40, N1=4, N2=1, KSLOTS=9)]
    sender_grid_t = sender_grid_q + [
        dict(CLS1=1, TYP1=0x17, CLS2=2, TYP2=1, N1=2, N2=4, KSLOTS=10),
        dict(CLS1=3, TYP1=1, CLS2=3, TYP2=4, N1=5, N2=2, KSLOTS=11),
        dict(CLS1=2, TYP1=2, CLS2=0, TYP2=5, N1=6, N2=1, KSLOTS=12),
        dict(CLS1=0, TYP1=0x10, CLS2=0, TYP2=0x11, N1=1, N2=1, KSLOTS=12),
    ]
    over_grid_q = [dict(CLS1=0, TYP1=3, KSLOTS=k) for k in (16, 17)]
    over_grid_t = [dict(CLS1=c, TYP1=t, KSLOTS=k) for (c, t) in ((0, 3), (3, 0x17), (2, 0)) for k in (15, 16, 17, 18, 20)]
    return [
        Ob("xds_demux_step", func="h_xds_step", unwind=40, solver="cadical", flags=["--max-field-sensitivity-array-size", "24"],
           desc="INV-STEP + step contract: from every demux state satisfying the invariant (slot counts in {0} u [2,34]; curr_sp NULL or the started slot named by "
                "curr.xds_class/subclass, class <= MISC) one byte pair (first byte = grid value incl. a parity error, second byte arbitrary) yields exactly the "
                "EIA-608 reassembly step: parity error/unknown header/caption code end the current packet, start resets the named slot, continue resumes a started one, "
                "content appends (discarded beyond 32 bytes), terminator delivers iff checksum good and >= 1 byte, with class/type of the packet, length, bytes, "
                "NUL terminated; no other slot is ever touched; invariant preserved; all array/pointer checks on the exact-size demux object",
           encodes=["vbi_xds_demux_feed", "vbi_unpar8"],
           bounds="one step; state fully symbolic (6792-byte image); first byte case-split on the grid (every dispatch class of the switch, both parities of header codes, "
                  "invalid classes), second byte symbolic; histories of any length by induction over the stated invariant (initial: xds_demux_init)",
           assumes=["representation invariant (shown initial by xds_demux_init, inductive by this obligation), assumed only for the three slots the step can depend on"],
           grid=[dict(C1FIX=v) for v in ("-0x41", "0x00", "0x01", "0x02", "0x05", "0x07", "0x08", "0x09", "0x0E", "0x0F", "0x14", "0x20", "0x41", "0x7F")],
           quick_grid=[dict(C1FIX=v) for v in ("-0x41", "0x01", "0x04", "0x07", "0x08", "0x0B", "0x0F", "0x14", "0x41")],
           reach=["end", "frame"], timeout=900, mem_gb=4, vin_size=vin_step, **common),
        Ob("xds_demux_init", func="h_xds_init", unwind=40, nafs=True, vin_size=vin_step,
           desc="INIT |= invariant: _vbi_xds_demux_init on dirty memory establishes the invariant used by xds_demux_step",
           encodes=["_vbi_xds_demux_init", "vbi_xds_demux_reset"], bounds="none", timeout=120, **common),
        Ob("xds_sender_seq", func="h_xds_sender", unwind=40, nafs=True, solver="cadical",
           desc="SEQ: reference sender multiplexes two XDS packets (payload symbolic) with caption control codes, caption text and null pairs under a symbolic "
                "schedule, resuming with continue codes, with one optional symbolic fault (parity flip of either byte, value change of a payload byte, wrong "
                "checksum byte): deliveries are exactly the cleanly terminated packets, once each, in termination order, byte exact; a faulty packet is never delivered",
           encodes=["vbi_xds_demux_feed", "_vbi_xds_demux_init", "vbi_unpar8"],
           bounds="KSLOTS byte pairs (9 quick, up to 12 thorough); 2 packets; class/type/length enumerated on the grid, contents, schedule and fault symbolic",
           outside="more than two packets in flight; streams longer than KSLOTS pairs",
           grid=sender_grid_t, quick_grid=sender_grid_q, reach=["end", "both", "one"], timeout=900, mem_gb=6, vin_size=128, **common),
        Ob("xds_overlong", func="h_xds_overlong", unwind=40, nafs=True, solver="cadical",
           desc="SEQ: start (or continue without start) followed by 15..20 arbitrary content pairs (second byte may be NUL, so 15..40 payload bytes) and a terminator with "
                "arbitrary checksum: nothing without a start code, never more than 32 bytes delivered, no access outside the demux object",
           encodes=["vbi_xds_demux_feed"], bounds="KSLOTS content pairs on the grid", grid=over_grid_t, quick_grid=over_grid_q,
           reach=["end", "delivered"], timeout=600, mem_gb=6, vin_size=64, **common),
    ]
