from vlib.runner import Ob


def obligations(tier, seed):
    U = ["src/hamm.c"]
    common = dict(harness="h_c09.c", units=U, stubs=["_vbi_log_printf unused (log macro off)"])
    vin_step = 6816
    sender_grid_q = [dict(CLS1=0, TYP1=1, CLS2=0, TYP2=2, N1=3, N2=2, KSLOTS=9),
                     dict(CLS1=0, TYP1=3, CLS2=3, TYP2=0x40, N1=4, N2=1, KSLOTS=9)]
    sender_grid_t = sender_grid_q + [
        dict(CLS1=1, TYP1=0x17, CLS2=2, TYP2=1, N1=2, N2=4, KSLOTS=10),
        dict(CLS1=3, TYP1=1, CLS2=3, TYP2=4, N1=5, N2=2, KSLOTS=11),
        dict(CLS1=2, TYP1=2, CLS2=0, TYP2=5, N1=6, N2=1, KSLOTS=12),
        dict(CLS1=0, TYP1=0x10, CLS2=0, TYP2=0x11, N1=1, N2=1, KSLOTS=12),
    ]
    over_grid_q = [dict(CLS1=0, TYP1=3, KSLOTS=k) for k in (16, 17)]
    over_grid_t = [dict(CLS1=c, TYP1=t, KSLOTS=k) for (c, t) in ((0, 3), (3, 0x17), (2, 0)) for k in (15, 16, 17, 18, 20)]
    return [
        Ob("xds_demux_step", func="h_xds_step", unwind=40, solver="cadical", flags=["--max-field-sensitivity-array-size", "24"],
           desc="INV-STEP + step contract: from every demux state satisfying the invariant (slot counts in {0} u [2,34]; curr_sp NULL or the started slot named by "
                "curr.xds_class/subclass, class <= MISC) one byte pair (first byte = grid value incl. a parity error, second byte arbitrary) yields exactly the "
                "EIA-608 reassembly step: parity error/unknown header/caption code end the current packet, start resets the named slot, continue resumes a started one, "
                "content appends (discarded beyond 32 bytes), terminator delivers iff checksum good and >= 1 byte, with class/type of the packet, length, bytes, "
                "NUL terminated; no other slot is ever touched; invariant preserved; all array/pointer checks on the exact-size demux object",
           encodes=["vbi_xds_demux_feed", "vbi_unpar8"],
           bounds="one step; state fully symbolic (6792-byte image); first byte case-split on the grid (every dispatch class of the switch, both parities of header codes, "
                  "invalid classes), second byte symbolic; histories of any length by induction over the stated invariant (initial: xds_demux_init)",
           assumes=["representation invariant (shown initial by xds_demux_init, inductive by this obligation), assumed only for the three slots the step can depend on"],
           grid=[dict(C1FIX=v) for v in ("-0x41", "0x00", "0x01", "0x02", "0x05", "0x07", "0x08", "0x09", "0x0E", "0x0F", "0x14", "0x20", "0x41", "0x7F")],
           quick_grid=[dict(C1FIX=v) for v in ("-0x41", "0x01", "0x04", "0x07", "0x08", "0x0B", "0x0F", "0x14", "0x41")],
           reach=["end", "frame"], timeout=2400, mem_gb=4, vin_size=vin_step, **common),
        Ob("xds_demux_init", func="h_xds_init", unwind=40, nafs=True, vin_size=vin_step,
           desc="INIT |= invariant: _vbi_xds_demux_init on dirty memory establishes the invariant used by xds_demux_step",
           encodes=["_vbi_xds_demux_init", "vbi_xds_demux_reset"], bounds="none", timeout=120, **common),
        # xds_sender_seq / xds_overlong (harness functions h_xds_sender, h_xds_overlong: reference sender multiplexing two packets with caption
        # data under a symbolic schedule) are NOT registered: measured 1375 s symex, 1.2 M steps, 17.6 GB at 9 byte pairs with
        # --max-field-sensitivity-array-size 24, out of memory at 11 GB with --no-array-field-sensitivity.  Sequences are covered by induction
        # over the step contract instead (DESIGN 0.3 C09).
        Ob("caption_xds_separator_step", harness="h_c09b.c", func="h_xdssep_step", units=["src/hamm.c"], unwind=40, solver="cadical",
           flags=["--max-field-sensitivity-array-size", "24"], tier="thorough",
           desc="INV-STEP on the service decoder's own xds_separator (caption.c): arbitrary sub-packet table satisfying the invariant, one byte pair (first byte on the "
                "grid, second arbitrary): same reassembly contract as the stand-alone demultiplexer (append, discard beyond 32 bytes, parity error/unknown header end the "
                "packet, no other slot touched), xds_decoder's assert(length <= 32) and all bounds inside struct caption",
           encodes=["xds_separator", "xds_decoder"], bounds="one step; first byte case-split; event_mask = 0 (decoder body short)",
           stubs=["struct teletext carved out of vbi_decoder (include guard TELETEXT_H + dummy)", "pthread mutex: flag + lock-discipline assertions", "vbi_send_event: log",
                  "vbi_caption_unicode: identity", "vbi_reset_prog_info: local copy"],
           assumes=["invariant: counts in {0} u [2,34], curr_sp NULL or a started slot", "first byte as vbi_decode_caption hands it over (parity error, 0x01..0x0F, >= 0x20)"],
           grid=[dict(C1FIX=v) for v in ("-0x41", "0x01", "0x02", "0x07", "0x09", "0x0F", "0x41")], reach=["end", "frame"], timeout=2400, mem_gb=6, vin_size=4096),
        Ob("caption_xds_decoder", harness="h_c09b.c", func="h_xdsdec", units=["src/hamm.c"], unwind=70, solver="cadical",
           flags=["--max-field-sensitivity-array-size", "24"],
           desc="xds_decoder for every packet type 0..0x17 of a class with an arbitrary payload of the grid length: every write inside vbi_program_info / vbi_network; "
                "programme name copied exactly (leading blanks skipped, control codes as blanks, NUL terminated)",
           encodes=["xds_decoder", "xds_strfu", "flush_prog_info"], bounds="class and length on the grid (class 0..3; lengths 1, 2, 4, 6, 32 quick; 1..32 thorough)",
           stubs=["struct teletext carved out", "vbi_send_event: log + asserts the caption mutex is released", "vbi_reset_prog_info: local copy"],
           grid=[dict(XCLS=c, XLEN=l) for c in range(4) for l in range(1, 33)], quick_grid=[dict(XCLS=c, XLEN=l) for c in (0, 2) for l in (1, 2, 4, 6, 32)],
           reach=["end"], timeout=1200, mem_gb=6, vin_size=128),
    ]
