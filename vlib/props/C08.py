from vlib.runner import Ob

# Deviations of src/caption.c from 47 CFR 15.119 / EIA 608-B found while building this check (see the C08 report).
# Each macro removes exactly the inputs on which the deviation shows from the claim (V_ASSUME in the reference model)
# or, for KNOWN_FON_NOT_SPACING / KNOWN_PEN_NOT_RESET_AT_ROW_START, makes the model tolerant there.
# Building without a macro re-arms the corresponding assertion (obligations "dev_*" below do that, tier "deviation").
KNOWN = [
    "KNOWN_FON_NOT_SPACING", "KNOWN_MR_ITALIC_WHITE", "KNOWN_TAB_ERASES", "KNOWN_PAC_INDENT_ERASES", "KNOWN_CR_IN_POPON",
    "KNOWN_RU_MOVE_ERASES", "KNOWN_RU_DEPTH_CHANGE_ERASES", "KNOWN_DIRECT_SHARES_BUFFERS", "KNOWN_EOC_ERASES_HIDDEN",
    "KNOWN_EOC_MOVES_CURSOR", "KNOWN_COL32_PARKED", "KNOWN_PEN_NOT_RESET_AT_ROW_START", "KNOWN_TR_NO_ERASE",
    "KNOWN_EDM_ENM_IN_TEXT_MODE", "KNOWN_F2_NO_DEDUP", "KNOWN_F2_NUL_FIRST_DROPS_PAIR", "KNOWN_CTRL_C2_RANGE",
    "KNOWN_STALE_PAD", "KNOWN_ERASE_WITHOUT_EVENT",
]

STUBS = ["struct teletext carved out of vbi_decoder (models/c08_carve.h); struct caption is the real type",
         "models/c08_env.c: pthread mutex = flag + lock-discipline assertions; vbi_send_event = log + assertion 'caption mutex not held'; "
         "vbi_atvef_trigger = log; vbi_reset_prog_info/vbi_chsw_reset no-ops; vbi_transp_colormap = copy",
         "post-constructor state built directly by cc_build() (never runs vbi_caption_init symbolically); the native build of every "
         "harness runs the real vbi_caption_init and compares all nine channels field by field first (VP init_state_*)"]
ASSUMES = ["control codes carry the channel bit of the channel under test (no interleaving with the other channel of the field inside one query)",
           "first byte of every pair has good parity", "no XDS bytes (0x01-0x0F), no EIA 608-B optional codes (background attributes 0x10/0x18, "
           "extended characters 0x12/0x13/0x1A/0x1B, BT/FA/FAU 0x17 0x2D-0x2F), no PAC while Text Mode is selected",
           "inputs on which a KNOWN_* deviation shows are excluded (list in vlib/props/C08.py)"]


def sk(name, skel, ch=0, cmp_text=0, mask=None, **kw):
    d = dict(SKEL=skel, CH=ch)
    if cmp_text:
        d["CMP_TEXT"] = 1
    if mask is None:
        mask = (1 << ch) | ((1 << (ch + 4)) if cmp_text else 0)
        if ch & 1:
            mask |= 1 << (ch - 1)      # data before the first control code goes to the even channel of the field
    d["CC_BUILD_MASK"] = "0x%x" % mask
    d.update(kw)
    return name, d


def obligations(tier, seed):
    U = ["src/lang.c", "src/hamm.c"]
    M = ["c08_env.c"]
    defs = {k: None for k in KNOWN}
    common = dict(harness="h_c08.c", units=U, models=M, stubs=STUBS, unwind=520, solver="cadical",
                  flags=["--max-field-sensitivity-array-size", "9"], mem_gb=3)
    seqs = [
        sk("popon_basic", "S_RCL;S_PACX(3);S_CH;S_TXA;S_EOC"),
        sk("rollup_basic", "S_RU2;S_TXA;S_CH;S_CR;S_TXA"),
    ]
    obs = []
    for name, d in seqs:
        dd = dict(defs); dd.update(d)
        obs.append(Ob("seq_" + name, func="h_cc_seq", defines=dd,
                      desc="SEQ skeleton %s from the reset state: after every step at which the standard makes content visible the displayed page "
                           "(the one vbi_fetch_cc_page copies) equals the reference EIA-608 display memory cell by cell (character, colour, underline, italic, "
                           "flash, background, opacity; a solid space is tolerated only next to a displayable character), a caption event was raised when it changed, "
                           "the caption mutex is never held while events are sent, all CBMC safety checks" % d["SKEL"],
                      encodes=["vbi_decode_caption", "caption_command", "put_char", "word_break", "update", "render", "clear", "roll_up",
                               "erase_memory", "set_cursor", "switch_channel", "vbi_fetch_cc_page", "vbi_caption_unicode", "vbi_unpar8"],
                      bounds="skeleton fixes the command class of every step; symbolic: second byte of text pairs (8 bits), PAC attribute/indent/underline bits, "
                             "mid-row / special character code, where the step kind says so",
                      outside="sequences not matching a skeleton of the grid; other channel of the same field interleaved",
                      assumes=ASSUMES, reach=["end", "compared"], timeout=300, vin_size=64, **common))
    return obs
