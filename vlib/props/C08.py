import os
from vlib.runner import Ob

# Deviations of src/caption.c from 47 CFR 15.119 / EIA 608-B found while building this check (see the C08 report).
# Each macro removes exactly the inputs on which the deviation shows from the claim (V_ASSUME in the reference model)
# or, for KNOWN_FON_NOT_SPACING / KNOWN_PEN_NOT_RESET_AT_ROW_START, makes the model tolerant there.
# Building without a macro re-arms the corresponding assertion (obligations "dev_*" below do that, tier "deviation").
KNOWN = [
    "KNOWN_FON_NOT_SPACING", "KNOWN_MR_ITALIC_WHITE", "KNOWN_TAB_ERASES", "KNOWN_PAC_INDENT_ERASES", "KNOWN_CR_IN_POPON",
    "KNOWN_RU_MOVE_ERASES", "KNOWN_RU_DEPTH_CHANGE_ERASES", "KNOWN_DIRECT_SHARES_BUFFERS", "KNOWN_EOC_ERASES_HIDDEN",
    "KNOWN_EOC_MOVES_CURSOR", "KNOWN_COL32_PARKED", "KNOWN_PEN_NOT_RESET_AT_ROW_START", "KNOWN_TR_NO_ERASE",
    "KNOWN_EDM_ENM_IN_TEXT_MODE", "KNOWN_F2_NO_DEDUP", "KNOWN_F2_NUL_FIRST_DROPS_PAIR", "KNOWN_CTRL_C2_RANGE",
    "KNOWN_STALE_PAD", "KNOWN_ERASE_WITHOUT_EVENT", "KNOWN_CR_CLEARS_35_CELLS",
]

STUBS = ["struct teletext carved out of vbi_decoder (models/c08_carve.h); struct caption is the real type",
         "models/c08_env.c: pthread mutex = flag + lock-discipline assertions; vbi_send_event = log + assertion 'caption mutex not held'; "
         "vbi_atvef_trigger = log; vbi_reset_prog_info/vbi_chsw_reset no-ops; vbi_transp_colormap = copy",
         "post-constructor state built directly by cc_build() (never runs vbi_caption_init symbolically); the native build of every "
         "harness runs the real vbi_caption_init and compares all nine channels field by field first (VP init_state_*)"]
ASSUMES = ["control codes carry the channel bit of the channel under test (no interleaving with the other channel of the field inside one query)",
           "first byte of every pair has good parity", "no XDS bytes (0x01-0x0F), no EIA 608-B optional codes (background attributes 0x10/0x18, "
           "extended characters 0x12/0x13/0x1A/0x1B, BT/FA/FAU 0x17 0x2D-0x2F), no PAC while Text Mode is selected",
           "inputs on which a KNOWN_* deviation shows are excluded (list in vlib/props/C08.py)"]


def sk(name, skel, ch=0, cmp_text=0, mask=None, **kw):
    d = dict(SKEL=skel, CH=ch)
    if cmp_text:
        d["CMP_TEXT"] = 1
    if mask is None:
        mask = (1 << ch) | ((1 << (ch + 4)) if cmp_text else 0)
        if ch & 1:
            mask |= 1 << (ch - 1)      # data before the first control code goes to the even channel of the field
    d["CC_BUILD_MASK"] = "0x%x" % mask
    d.update(kw)
    return name, d


def odd(x):
    return x | (0 if bin(x & 0x7F).count("1") & 1 else 0x80)


def obligations(tier, seed):
    U = ["src/lang.c", "src/hamm.c"]
    M = ["c08_env.c"]
    defs = {k: None for k in KNOWN}
    common = dict(harness="h_c08.c", units=U, models=M, stubs=STUBS, unwind=560, solver="cadical",
                  flags=["--max-field-sensitivity-array-size", "9"], mem_gb=4)
    seqs = [
        # pop-on: loading into non-displayed memory, nothing visible before EOC
        sk("popon_basic", "S_RCL;S_PACC(3);S_CH;S_TXA;S_EOC"),
        sk("popon_indent", "S_RCL;S_PACI(14);S_TXA;S_EOC"),
        sk("popon_midrow", "S_RCL;S_PAC(8,0x0F);S_LIT(0x41,0x42);S_MRX;S_TXA;S_EOC"),
        sk("popon_two_captions", "S_RCL;S_PAC(15,2);S_TXA;S_EOC;S_ENM;S_PAC(2,0x10);S_TXA;S_EOC"),
        sk("popon_edit", "S_RCL;S_PAC(5,0x14);S_LIT(0x41,0x42);S_TXA;S_BS;S_CH;S_EOC"),
        sk("popon_der", "S_RCL;S_PAC(5,0x14);S_TXA;S_PAC(5,0x12);S_DER;S_EOC"),
        sk("popon_tab_special", "S_RCL;S_PAC(9,0x10);S_TO(2);S_LIT(0x41,0x42);S_SPX;S_TXA;S_EOC"),
        sk("popon_col32", "S_RCL;S_PAC(13,0x1E);S_LIT(0x41,0x42);S_LIT(0x43,0x44);S_TXA;S_CH;S_EOC"),
        sk("popon_edm_dup", "S_RCL;S_RCL;S_PAC(10,4);S_PAC(10,4);S_TXA;S_EOC;S_EOC;S_EDM"),
        # roll-up
        sk("rollup_basic", "S_RU2;S_TXA;S_CH;S_CR;S_TXA"),
        sk("rollup_pac", "S_RU3;S_PAC(12,6);S_TXA;S_CR;S_TXA"),
        sk("rollup_top_clamp", "S_RU4;S_PAC(2,0);S_TXA;S_CR;S_TXA;S_CR"),
        sk("rollup_top_repac", "S_RU4;S_PAC(2,0);S_TXA;S_CR;S_PAC(2,0);S_TXA;S_CR;S_PAC(2,0);S_TXS"),   # the usual CR / PAC / text pattern with the window clamped at the top: a repeated PAC to the same base row moves nothing
        sk("rollup_midrow_edm", "S_RU2;S_LIT(0x41,0x42);S_MRX;S_TXA;S_EDM;S_TXS"),
        sk("rollup_dup_badpar", "S_RU2;S_RU2;S_TXA;S_CR;S_CR;S_TXA;S_MISCBAD(0x2D);S_TXS"),
        sk("popon_datax", "S_RCL;S_PAC(7,0);S_LIT(0x41,0x42);S_DATAX;S_TXA;S_EOC"),
        # the same control code meant twice in succession = three / four identical pairs on field 1: (i)(1) drops exactly the second of each pair of transmissions
        sk("rollup_cr_x3", "S_RU3;S_TXA;S_CR;S_CR;S_CR;S_TXA"),
        # paint-on
        sk("painton_basic", "S_RDC;S_PACC(7);S_LIT(0x41,0x20);S_TXA;S_MR(5)"),
        sk("painton_midrow", "S_RDC;S_PAC(7,0);S_LIT(0x41,0x42);S_MRX;S_TXS"),
        sk("painton_rows", "S_RDC;S_PAC(3,0);S_LIT(0x41,0x20);S_TXA;S_PAC(6,0x12);S_TXS"),
        sk("painton_der", "S_RDC;S_PAC(3,0x12);S_TXA;S_PAC(3,0);S_DER"),
        # mode switches
        sk("switch_popon_rollup", "S_RCL;S_PAC(4,0);S_TXA;S_EOC;S_RU2;S_TXA;S_CR"),
        sk("switch_rollup_popon", "S_RU2;S_TXS;S_EDM;S_RCL;S_PAC(1,0);S_TXA;S_EOC"),
        # text channel and back
        sk("text_basic", "S_TR;S_TXA;S_CR;S_TXA;S_RCL;S_PAC(0,0);S_TXA;S_EOC", cmp_text=1),
        # other channels / field 2 / F bit
        sk("cc2_popon", "S_RCL;S_PAC(3,6);S_TXA;S_EOC", ch=1),
        sk("cc3_rollup_284", "S_RU2;S_TXA;S_CR;S_TXA", ch=2),
        sk("cc3_rollup_335", "S_RU2;S_CH;S_TXA;S_CR;S_TXA", ch=2, LINE_NO=335),
        sk("cc4_popon", "S_RCL;S_PAC(11,0x18);S_TXA;S_EOC", ch=3, LINE_NO=335),
        sk("fbit_rollup", "S_RU2;S_TXA;S_CR;S_BS;S_TXA", CTRL_F=1),
    ]
    seqs_t = [
        sk("t_rollup_datax", "S_RU3;S_LIT(0x41,0x42);S_DATAX;S_TXA;S_TXS"),
        sk("t_popon_bs_x4", "S_RCL;S_PAC(5,0x14);S_LIT(0x41,0x42);S_LIT(0x43,0x44);S_BS;S_BS;S_BS;S_BS;S_TXA;S_EOC"),
        # dropped after measurement: t_popon_tab_x3 "S_RCL;S_PAC(9,0x10);S_TXA;S_TO(3);S_TO(3);S_TO(3);S_TXA;S_EOC": discharged, but 885 s / 4.6 GB against the 900 s cap
        sk("t_rollup_cr_x4", "S_RU4;S_PAC(14,0);S_TXA;S_CR;S_CR;S_CR;S_CR;S_TXA"),
        sk("t_popon_pacx_r1", "S_RCL;S_PACX(2);S_TXA;S_CH;S_EOC"),
        sk("t_popon_pacc_r15", "S_RCL;S_PACC(9);S_TXA;S_CH;S_EOC"),
        sk("t_popon_paci_r15", "S_RCL;S_PACI(9);S_TXA;S_EOC"),
        sk("t_painton_pacx_r11", "S_RDC;S_PACX(0);S_TXA;S_TXS"),
        sk("t_rollup_pac_italic", "S_RU3;S_PAC(12,0x0F);S_TXA;S_CR;S_TXA"),
        sk("t_rollup_pac_indent", "S_RU2;S_PAC(6,0x1D);S_TXA;S_CR;S_TXA"),
        sk("t_rollup4_long", "S_RU4;S_TXA;S_CR;S_TXA;S_CR;S_TXA;S_CR;S_TXA;S_CR;S_TXA"),
        sk("t_popon_three", "S_RCL;S_PAC(8,0);S_TXA;S_PAC(10,0x14);S_TXA;S_PAC(12,3);S_TXA;S_EOC;S_EDM"),
        sk("t_text_scroll", "S_TR;S_TXA;S_CR;S_CR;S_CR;S_CR;S_CR;S_CR;S_CR;S_CR;S_CR;S_CR;S_CR;S_CR;S_CR;S_CR;S_TXA;S_CR;S_TXA", cmp_text=1),
        sk("t_cc2_rollup", "S_RU3;S_TXA;S_MRX;S_CR;S_TXS", ch=1),
        sk("t_cc4_rollup_284", "S_RU2;S_TXA;S_CR;S_TXA", ch=3),
        sk("t_t3_text", "S_RTD;S_TXA;S_CR;S_TXS;S_BS", ch=2, cmp_text=1, LINE_NO=335),
    ]
    obs = []
    for name, d in seqs + seqs_t:
        dd = dict(defs); dd.update(d)
        obs.append(Ob("seq_" + name, func="h_cc_seq", defines=dd, tier=("thorough" if name.startswith("t_") else "quick"),
                      desc="SEQ skeleton %s from the reset state: after every step at which the standard makes content visible the displayed page "
                           "(the one vbi_fetch_cc_page copies) equals the reference EIA-608 display memory cell by cell (character, colour, underline, italic, "
                           "flash, background, opacity; a solid space is tolerated only next to a displayable character), a caption event was raised when it changed, "
                           "the caption mutex is never held while events are sent, all CBMC safety checks" % d["SKEL"],
                      encodes=["vbi_decode_caption", "caption_command", "put_char", "word_break", "update", "render", "clear", "roll_up",
                               "erase_memory", "set_cursor", "switch_channel", "vbi_fetch_cc_page", "vbi_caption_unicode", "vbi_unpar8"],
                      bounds="skeleton fixes the command class of every step; symbolic: second byte of text pairs (8 bits), PAC attribute/indent/underline bits, "
                             "mid-row / special character code, where the step kind says so",
                      outside="sequences not matching a skeleton of the grid; other channel of the same field interleaved",
                      assumes=ASSUMES, reach=["end", "compared"], timeout=(900 if name.startswith("t_") else 400), vin_size=64,
                      **dict(common, mem_gb=(8 if name.startswith("t_") else common["mem_gb"]))))
    # ---- vbi_fetch_cc_page contract (composition step: the SEQ obligations read the page fetch copies) ----
    fg_t = [dict(PGNO=p, HID=h, CC_BUILD_MASK="0x%x" % (1 << ((p - 1) & 7))) for p in (0, 1, 2, 4, 5, 8, 9) for h in (0, 1)]
    fg_q = [dict(PGNO=p, HID=h, CC_BUILD_MASK="0x%x" % (1 << ((p - 1) & 7))) for (p, h) in ((1, 0), (1, 1), (6, 1), (9, 0), (0, 1))]
    obs.append(Ob("fetch_contract", func="h_cc_fetch", defines=dict(defs), grid=fg_t, quick_grid=fg_q,
                  desc="vbi_fetch_cc_page(pgno): TRUE iff 1 <= pgno <= 8; the page handed out is pg[hidden ^ 1] of channel pgno - 1 (header, dirty fields, an "
                       "all 1056 cells), the source keeps its cells, its dirty fields are reset to 'nothing to redraw', the other "
                       "page is untouched, the mutex is released; FALSE leaves the output and the decoder untouched.  Also pins the 64-bit word view of vbi_char "
                       "which the SEQ comparisons use (cell_layout)",
                  encodes=["vbi_fetch_cc_page"], bounds="pgno and hidden enumerated on the grid; all 2 x 1056 cells of the channel, dirty fields, reset flag symbolic",
                  assumes=[], reach=["end"], timeout=200, vin_size=17000, **common))
    # ---- field 2 routing caption / XDS ----
    def rb(b1, b2=None):
        d = dict(RB1="0x%02x" % b1)
        if b2 is not None:
            d["RB2"] = "0x%02x" % b2
        return d
    rb_q = [rb(0x80), rb(odd(0x01), odd(0x01)), rb(odd(0x0F)), rb(odd(0x14), odd(0x20)), rb(odd(0x41)), rb(odd(0x41) ^ 0x80)]
    rb_t = rb_q + [rb(odd(0x02), odd(0x05)), rb(odd(0x0E), odd(0x10)), rb(odd(0x07), odd(0x40)), rb(odd(0x14), odd(0x2C)), rb(odd(0x11), odd(0x2E)),
                   rb(odd(0x20)), rb(odd(0x7F)), rb(odd(0x05) ^ 0x80), rb(odd(0x14) ^ 0x80)]
    obs.append(Ob("field2_routing", func="h_cc_route", defines=dict(defs, CC_BUILD_MASK="0x04"), grid=rb_t, quick_grid=rb_q,
                  desc="line 284 (NTSC field 2), CC3 in roll-up mode, cc.xds symbolic, no XDS packet in progress, one pair with literal first byte RB1 (second byte "
                       "literal where the decoder dispatches on it, else symbolic): "
                       "0x00 no effect; 0x01-0x0E start/continue XDS (cc.xds = 1, caption untouched); 0x0F ends it; 0x10-0x1F end XDS mode and are executed as "
                       "caption control codes; >= 0x20 or parity error follow cc.xds: XDS payload (caption untouched) or caption text (two cells stored)",
                  encodes=["vbi_decode_caption", "xds_separator", "caption_command", "put_char", "word_break"], bounds="one pair; first byte (and XDS class/type, control code) on the grid",
                  assumes=["cc.curr_sp == NULL (no XDS packet in progress)"],
                  reach=["end"], timeout=200, vin_size=64, **common))
    # ---- ITV separator ----
    obs.append(Ob("itv_separator_step", func="h_cc_itv", defines=dict(defs, CC_BUILD_MASK="0x0"),
                  desc="INV-STEP itv_separator (WebTV links on T2): from every itv_buf[256], itv_count in [0,255], any event mask, one character < 0x80: "
                       "itv_count stays in [0,255] (initial 0), characters are appended (wrapping to 0 after 255 bytes), control characters and '<' hand a NUL "
                       "terminated string inside itv_buf to vbi_atvef_trigger exactly once and restart; nothing happens without VBI_EVENT_TRIGGER; no access outside itv_buf",
                  encodes=["itv_separator"], bounds="one step from an arbitrary state satisfying the invariant; any history by induction",
                  assumes=["invariant 0 <= itv_count <= 255 (initial: 0 by vbi_caption_init / vbi_caption_desync)"],
                  reach=["end", "append", "trigger"], timeout=200, vin_size=512, **common))
    # ---- INV-STEP: one command from an arbitrary channel state (safety, invariant, frame) ----
    cb = 0   # channel bit of CH = 0
    def ctl(k, c2):
        return dict(IB1="0x%02x" % odd(0x10 | (cb << 3) | k), IB2="0x%02x" % odd(c2))
    classes = [("text_A", dict(IB1="0x%02x" % odd(0x41))), ("text_sp", dict(IB1="0x%02x" % odd(0x20))), ("text_nul", dict(IB1="0x80")),
               ("text_badpar", dict(IB1="0x%02x" % (odd(0x41) ^ 0x80))),
               ("pac_r1", ctl(1, 0x40)), ("pac_r15_ind28", ctl(4, 0x7E)), ("pac_r11_ital", ctl(0, 0x4F)), ("pac_invalid", ctl(0, 0x60)), ("pac_r13_ind0", ctl(3, 0x71)),
               ("midrow", ctl(1, 0x2E)), ("special_ts", ctl(1, 0x39)), ("special", ctl(1, 0x37)), ("tab3", ctl(7, 0x23)), ("opt_bt", ctl(7, 0x2D)),
               ("opt_fau", ctl(7, 0x2F)), ("c7_other", ctl(7, 0x24)), ("bgattr", ctl(0, 0x23)), ("extchar", ctl(2, 0x30)), ("reserved6", ctl(6, 0x20)),
               ("c2_low_cr", ctl(4, 0x0D)), ("c2_low_special", ctl(1, 0x13)), ("c2_low_bg", ctl(0, 0x01)),
               ("ctl_badpar", dict(IB1="0x%02x" % odd(0x14), IB2="0x%02x" % (odd(0x2D) ^ 0x80)))]
    misc_names = ["rcl", "bs", "aof", "aon", "der", "ru2", "ru3", "ru4", "fon", "rdc", "tr", "rtd", "edm", "cr", "enm", "eoc"]
    classes += [("misc_" + n, ctl(4, 0x20 + i)) for i, n in enumerate(misc_names)]
    states = [("pop_r14", dict(IMODE="MODE_POP_ON", IROLL=3, IROW1=12, IROW=14, IHID=0)),
              ("pop_r0_win0", dict(IMODE="MODE_POP_ON", IROLL=4, IROW1=0, IROW=0, IHID=1)),
              ("roll2_r14", dict(IMODE="MODE_ROLL_UP", IROLL=2, IROW1=13, IROW=14, IHID=0)),
              ("roll4_r3", dict(IMODE="MODE_ROLL_UP", IROLL=4, IROW1=0, IROW=3, IHID=1)),
              ("paint_r7", dict(IMODE="MODE_PAINT_ON", IROLL=3, IROW1=5, IROW=7, IHID=1)),
              ("text_r14", dict(IMODE="MODE_TEXT", IROLL=15, IROW1=0, IROW=14, IHID=0)),
              ("text_r0", dict(IMODE="MODE_TEXT", IROLL=15, IROW1=0, IROW=0, IHID=1)),
              ("none_r14", dict(IMODE="MODE_NONE", IROLL=3, IROW1=12, IROW=14, IHID=0))]
    cd, sd = dict(classes), dict(states)
    def inst(c, st):
        d = dict(C08_CLS=c, C08_ST=st); d.update(cd[c]); d.update(sd[st]); return d
    def expand(d):            # DER loops from the cursor column: column on the grid for this class
        if d["C08_CLS"] in ("misc_der",):
            return [dict(d, ICOL=c) for c in (1, 17, 33)]
        return [d]
    inv_t = [e for c, _ in classes for st, _ in states for e in expand(inst(c, st))]
    inv_q = [inst(c, st) for c, st in (("misc_cr", "roll2_r14"), ("misc_cr", "text_r14"), ("misc_cr", "pop_r0_win0"), ("pac_r15_ind28", "roll4_r3"),
                                       ("text_A", "pop_r0_win0"), ("text_sp", "roll2_r14"), ("misc_bs", "pop_r14"),
                                       ("misc_eoc", "roll4_r3"), ("misc_ru4", "pop_r14"), ("misc_tr", "paint_r7"), ("special_ts", "text_r0"), ("tab3", "pop_r14"))]
    inv_q += [dict(inst("misc_der", "paint_r7"), ICOL=c) for c in (1, 33)]
    obs.append(Ob("inv_step", harness="h_c08_inv.c", func="h_cc_inv", defines=dict(defs, CC_BUILD_MASK="0x11"), grid=inv_t, quick_grid=inv_q,
                  desc="INV-STEP: one byte pair of class CLS (first byte / control code literal, second byte of text pairs symbolic) from an ARBITRARY state of the "
                       "channel (all 2 x 510 cells, column and word start 1 <= col1 <= col <= 33, pen, null counter, repetition memory symbolic; mode, hidden page, "
                       "roll-up depth, window top and cursor row = state ST of the grid): the representation invariant holds again (cursor in range, "
                       "line == pg[hidden].text + row * 34, window inside the 15 rows), the members of vbi_page next to text[] and the 34 cells behind row 15 are "
                       "untouched, the mutex is released and never held while an event is sent, all CBMC safety checks of the decoder code",
                  encodes=["vbi_decode_caption", "caption_command", "put_char", "put_char_space", "word_break", "update", "render", "clear", "roll_up", "erase_memory",
                           "set_cursor", "switch_channel", "vbi_caption_unicode"],
                  bounds="one step; state and class on the grid (quick: 13 pairs; thorough: 39 classes x 8 states), everything else symbolic; histories of any length by "
                         "induction over the invariant (initial state: obligation seq_* prologue + native init check)",
                  outside="cursor rows other than those of the grid states (0, 3, 7, 14); channel CC1/T1 only",
                  assumes=["representation invariant of cc_channel (asserted again after the step)"], reach=["end"], timeout=400, vin_size=8300,
                  **{k: v for k, v in common.items() if k != "harness"}))
    # ---- deviations from the standard: each KNOWN_* macro switched off on a sequence that shows it (expected: REFUTED + native replay) ----
    if os.environ.get("VERIF_C08_DEVIATIONS") == "1":
        devs = [
            ("KNOWN_FON_NOT_SPACING", "S_RU2;S_TXA;S_FON;S_TXS", {}),
            ("KNOWN_MR_ITALIC_WHITE", "S_RU2;S_MR(8);S_MR(0xE);S_TXA;S_TXS", {}),
            ("KNOWN_TAB_ERASES", "S_RCL;S_PAC(3,0);S_TXA;S_TXA;S_PAC(3,0);S_TO(2);S_EOC", {}),
            ("KNOWN_PAC_INDENT_ERASES", "S_RCL;S_PAC(3,0);S_TXA;S_TXA;S_TXA;S_PAC(3,0x12);S_EOC", {}),
            ("KNOWN_CR_IN_POPON", "S_RCL;S_PAC(2,0);S_TXA;S_CR;S_TXA;S_EOC", {}),
            ("KNOWN_RU_MOVE_ERASES", "S_RU2;S_TXA;S_TXS;S_PAC(8,0)", {}),
            ("KNOWN_RU_DEPTH_CHANGE_ERASES", "S_RU3;S_TXA;S_TXS;S_RU2", {}),
            ("KNOWN_DIRECT_SHARES_BUFFERS", "S_RU2;S_TXA;S_TXS;S_RCL;S_PAC(2,0);S_TXA;S_EOC", {}),
            ("KNOWN_EOC_ERASES_HIDDEN", "S_RCL;S_PAC(2,0);S_TXA;S_EOC;S_RCL;S_EOC;S_RCL;S_EOC", {}),
            ("KNOWN_EOC_MOVES_CURSOR", "S_RCL;S_PAC(2,0);S_EOC;S_TXA;S_EOC", {}),
            ("KNOWN_COL32_PARKED", "S_RCL;S_PAC(13,0x1E);S_TXA;S_TXA;S_BS;S_EOC", {}),
            ("KNOWN_PEN_NOT_RESET_AT_ROW_START", "S_RU2;S_MR(8);S_TXA;S_CR;S_TXA;S_TXS", {}),
            ("KNOWN_TR_NO_ERASE", "S_TR;S_TXA;S_TXS;S_TR", dict(cmp_text=1)),
            ("KNOWN_EDM_ENM_IN_TEXT_MODE", "S_RCL;S_PAC(2,0);S_TXA;S_EOC;S_TR;S_EDM", dict(cmp_text=1)),
            ("KNOWN_F2_NO_DEDUP", "S_RU2;S_TXA;S_CR;S_CR;S_TXS", dict(ch=2, LINE_NO=335)),
            ("KNOWN_F2_NUL_FIRST_DROPS_PAIR", "S_RU2;S_CH;S_TXS", dict(ch=2)),
            ("KNOWN_CTRL_C2_RANGE", "S_RU2;S_TXA;S_TXS;S_CTL(4,0x0D)", {}),
            ("KNOWN_STALE_PAD", "S_RU2;S_TXA;S_TXS;S_PAC(9,0);S_DER", {}),
            ("KNOWN_ERASE_WITHOUT_EVENT", "S_RCL;S_PAC(2,0);S_TXA;S_EOC;S_RU2", {}),
            ("KNOWN_CR_CLEARS_35_CELLS", "S_RU2;S_CR", {}),
        ]
        for mac, skel, kw in devs:
            name, d = sk("dev_" + mac[6:].lower(), skel, **kw)
            dd = {k: None for k in KNOWN if k != mac}; dd.update(d)
            obs.append(Ob(name, func="h_cc_seq", defines=dd, tier="deviation",
                          desc="DEVIATION DEMO: skeleton %s with %s switched off (reference model strict): expected to be REFUTED with a native replay" % (skel, mac),
                          encodes=["vbi_decode_caption"], bounds="see seq_*", assumes=ASSUMES, reach=["end"], timeout=400, vin_size=64, **common))
    # ---- sensitivity: mutants of src/caption.c (scratch copy through patch=), each must be REFUTED by the named skeleton ----
    if os.environ.get("VERIF_C08_MUTANTS") == "1":
        seqd = dict(seqs)
        muts = [
            ("putchar_off_by_one", "popon_col32", [(r"if \(ch->col < COLUMNS - 1\)\n\t\tch->line\[ch->col\+\+\] = c;", "if (ch->col < COLUMNS)\n\t\tch->line[ch->col++] = c;")]),
            ("palette_swapped", "popon_basic", [(r"VBI_WHITE, VBI_GREEN, VBI_BLUE, VBI_CYAN,", "VBI_WHITE, VBI_BLUE, VBI_GREEN, VBI_CYAN,")]),
            ("row_mapping_swapped", "painton_rows", [(r"11, 12, 13, 14,  4, 5, 6, 7, 8, 9", "12, 11, 13, 14,  4, 5, 6, 7, 8, 9")]),
            ("eoc_no_flip", "popon_basic", [(r"ch->hidden \^= 1;", ";")]),
            ("no_dedup_field1", "popon_edm_dup", [(r"&& buf\[1\] == cc->last\[1\]\) \{", "&& buf[1] == cc->last[1] && 0) {")]),
            ("event_with_mutex", "rollup_basic", [(r"pthread_mutex_unlock\(&vbi->cc\.mutex\);\n\n\tvbi_send_event\(vbi, ev\);\n\n\tpthread_mutex_lock\(&vbi->cc\.mutex\);", "vbi_send_event(vbi, ev);")]),
            ("cr_rolls_one_row_too_many", "rollup_basic", [(r"\(ch->roll - 1\) \* COLUMNS\)", "(ch->roll) * COLUMNS)")]),
            ("erase_one_row_too_many", "rollup_basic", [(r"for \(i = 0; i < COLUMNS \* ROWS; acp\+\+, i\+\+\)", "for (i = 0; i < COLUMNS * ROWS + COLUMNS; acp++, i++)")]),
            ("midrow_keeps_italic", "popon_midrow", [(r"if \(c2 < 7\) \{\n\t\t\t\tch->attr.italic = FALSE;\n\t\t\t\tch->attr.foreground = palette_mapping\[c2\];\n\t\t\t\} else \{\n\t\t\t\tch->attr.italic = TRUE;\n\t\t\t\tch->attr.foreground = VBI_WHITE;\n\t\t\t\}\n\n\t\t\t/\* 47 CFR", "if (c2 < 7) {\n\t\t\t\tch->attr.foreground = palette_mapping[c2];\n\t\t\t} else {\n\t\t\t\tch->attr.italic = TRUE;\n\t\t\t\tch->attr.foreground = VBI_WHITE;\n\t\t\t}\n\n\t\t\t/* 47 CFR")]),
        ]
        for mname, base, subs in muts:
            dd = dict(defs); dd.update(seqd[base])
            obs.append(Ob("mut_" + mname, func="h_cc_seq", defines=dd, tier="mutant", patch={"src/caption.c": subs},
                          desc="MUTANT %s of src/caption.c under skeleton %s: expected REFUTED" % (mname, base),
                          encodes=["vbi_decode_caption"], bounds="see seq_*", assumes=ASSUMES, reach=["end"], timeout=400, vin_size=64, **common))
        obs.append(Ob("mut_fetch_wrong_page", func="h_cc_fetch", defines=dict(defs, PGNO=1, HID=1, CC_BUILD_MASK="0x1"), tier="mutant",
                      patch={"src/caption.c": [(r"spg = ch->pg \+ \(ch->hidden \^ 1\);", "spg = ch->pg + ch->hidden;")]},
                      desc="MUTANT: vbi_fetch_cc_page hands out the hidden page: expected REFUTED", encodes=["vbi_fetch_cc_page"], bounds="", reach=["end"],
                      timeout=200, vin_size=17000, **common))
        obs.append(Ob("mut_inv_putchar", harness="h_c08_inv.c", func="h_cc_inv", tier="mutant",
                      defines=dict(defs, CC_BUILD_MASK="0x11", IMODE="MODE_POP_ON", IROLL=3, IROW1=12, IROW=14, IHID=0, IB1="0x%02x" % odd(0x41)),
                      patch={"src/caption.c": [(r"ch->line\[COLUMNS - 2\] = c;", "ch->line[COLUMNS + 1] = c;")]},
                      desc="MUTANT: put_char stores behind the row at the last column (inside text[], CBMC's own bounds check is blind): expected REFUTED by the canary",
                      encodes=["put_char"], bounds="", reach=["end"], timeout=300, vin_size=8300, **{k: v for k, v in common.items() if k != "harness"}))
    return obs
