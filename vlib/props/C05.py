"""C05 - raw decoding never touches memory outside the raw image or the output array.

Known defects of the current tree (see the report / known_findings): the obligations below run with
-DKNOWN_SLICER_OVERREAD / -DKNOWN_SLICE_BUFSIZE_UNITS, which make the harness state the *measured* bound
(the slicer reads exactly SLACK bytes beyond the line; the lemma bounds the over-read by OVER_MAX samples).
VERIF_C05_STRICT=1 drops these defines: the property is then stated as written and the affected obligations are
refuted with a replayable counterexample."""
import os
from vlib.runner import Ob

STRICT = True   # the defects these guards masked are fixed in /repo; the obligations state the property as written

# name -> (enum, bytes per sample, byte offset of the sampled component, bytes loaded per sample, low-pass capable)
FMTS = {
    "Y8": ("VBI_PIXFMT_YUV420", 1, 0, 1, True),
    "YUYV": ("VBI_PIXFMT_YUYV", 2, 0, 1, True),
    "UYVY": ("VBI_PIXFMT_UYVY", 2, 1, 1, True),
    "RGB24": ("VBI_PIXFMT_RGB24", 3, 1, 1, True),
    "RGBA32_LE": ("VBI_PIXFMT_RGBA32_LE", 4, 1, 1, True),
    "RGBA32_BE": ("VBI_PIXFMT_RGBA32_BE", 4, 2, 1, True),
    "RGB16_LE": ("VBI_PIXFMT_RGB16_LE", 2, 0, 2, False),
    "RGB16_BE": ("VBI_PIXFMT_RGB16_BE", 2, 0, 2, False),
    "RGBA15_LE": ("VBI_PIXFMT_RGBA15_LE", 2, 0, 2, False),
    "ARGB15_BE": ("VBI_PIXFMT_ARGB15_BE", 2, 0, 2, False),
}
# scaled services: (cri_bits, cri_rate, frc_bits, payload_bits, payload_rate, modulation, biphase)
SVC = {
    "ttx": (4, 1000, 2, 8, 1000, "NRZ_LSB", False),      # cri rate == bit rate, octets lsb first (Teletext, Caption)
    "ttx16": (3, 1000, 1, 16, 1000, "NRZ_LSB", False),   # two payload octets (output buffer size check)
    "msb": (3, 1000, 2, 6, 1000, "NRZ_MSB", False),      # bit-wise, msb first
    "vps": (4, 2000, 0, 8, 1000, "BIPHASE_MSB", True),   # cri at twice the bit rate, no FRC, octets msb first (VPS)
    "wss": (4, 3000, 0, 5, 1000, "BIPHASE_LSB", True),   # cri faster than payload, bit-wise lsb first (WSS)
    "vps1": (4, 2000, 1, 8, 1000, "BIPHASE_MSB", True),  # legacy interface: frc_bits >= 1 (frc_bits == 0 is UB there: >> 32)
    "wss1": (4, 3000, 1, 5, 1000, "BIPHASE_LSB", True),
    "lp": (1, 1000, 0, 1, 1000, "NRZ_LSB", False),       # >24 samples per bit: low-pass slicer
}


def slicer3(fmt, rate, off, spl, svc):
    """independent reading of vbi3_bit_slicer_set_params (bit_slicer.c:683): search window and last byte read"""
    enum, bps, fskip, gb, lpcap = FMTS[fmt]
    cri_bits, cri_rate, frc_bits, pay_bits, pay_rate, mod, biphase = SVC[svc]
    if cri_rate > rate or pay_rate > rate:
        return None
    lp = lpcap and (rate // max(cri_rate, pay_rate)) > 24
    cri_samples = (rate * cri_bits) // cri_rate
    nbits = pay_bits + frc_bits
    data_samples = (rate * nbits) // pay_rate
    if off > spl or cri_samples + data_samples > spl - off:
        return None
    cs = spl - data_samples - off
    step = (rate * 256) // pay_rate
    ph = int(rate * 256.0 / cri_rate * .5 + step * (.25 if biphase else .5) + 128)
    skip = off * bps + fskip
    far = (ph + (nbits - 1) * step) >> 8
    if lp:
        last = max(skip + (cs - 1 + 16) * bps, skip + (cs + far + 15) * bps)
    else:
        last = skip + (cs - 1 + max(far, 0) + 1) * bps + gb - 1
    return dict(lp=lp, cri_samples=cs, last=last, slack=max(0, last + 1 - spl * bps))


def legacy(fmt, rate, spl, svc):
    """independent reading of vbi_bit_slicer_init (decoder.c:340)"""
    enum, bps, fskip, gb, lpcap = FMTS[fmt]
    cri_bits, cri_rate, frc_bits, pay_bits, pay_rate, mod, biphase = SVC[svc]
    nbits = pay_bits + frc_bits
    cri_bytes = spl - (rate * nbits) // pay_rate
    step = int(rate * 256.0 / pay_rate)
    ph = int(rate * 256.0 / cri_rate * .5 + rate * 256.0 / pay_rate * (.25 if biphase else .5) + 128)
    far = (ph + (nbits - 1) * step) >> 8
    if cri_bytes <= 0:
        return None
    if gb == 2:
        last = (cri_bytes - 1 + far) * 2 + 3
    else:
        last = fskip + (cri_bytes - 1 + far + 1) * bps
    return dict(last=last, slack=max(0, last + 1 - spl * bps))


def gp3(fmt, svc, rate, spl, off):
    m = slicer3(fmt, rate, off, spl, svc)
    assert m is not None, (fmt, svc, rate, spl, off)
    enum, bps, fskip, gb, lpcap = FMTS[fmt]
    cri_bits, cri_rate, frc_bits, pay_bits, pay_rate, mod, biphase = SVC[svc]
    slack = 0 if STRICT else m["slack"]
    return dict(FMT=enum, BPS=bps, RATE=rate, SPL=spl, OFF=off, CRI_BITS=cri_bits, CRI_RATE=cri_rate, FRC_BITS=frc_bits,
                PAY_BITS=pay_bits, PAY_RATE=pay_rate, MOD="VBI3_MODULATION_" + mod, SLACK=slack,
                VIN_SIZE=spl * bps + slack + (pay_bits + 7) // 8 + 16)


def gpl(fmt, svc, rate, spl):
    m = legacy(fmt, rate, spl, svc)
    assert m is not None, (fmt, svc, rate, spl)
    enum, bps, fskip, gb, lpcap = FMTS[fmt]
    cri_bits, cri_rate, frc_bits, pay_bits, pay_rate, mod, biphase = SVC[svc]
    slack = 0 if STRICT else m["slack"]
    return dict(FMT=enum, BPS=bps, RATE=rate, SPL=spl, CRI_BITS=cri_bits, CRI_RATE=cri_rate, FRC_BITS=frc_bits,
                PAY_BITS=pay_bits, PAY_RATE=pay_rate, MOD="VBI_MODULATION_" + mod, SLACK=slack,
                VIN_SIZE=spl * bps + slack + (pay_bits + 7) // 8 + 16)


# real service table rows (index into _vbi_service_table, raw_decoder.c:58): label, and the largest over-read in
# samples of the generic / the low-pass slicer over ALL sampling rates from the admission limit of
# _vbi_sampling_par_permit_service (1.5 x max(cri_rate, bit_rate); WSS: 1 x) to 2^27 Hz - found by native exhaustive
# enumeration of the rate with the real vbi3_bit_slicer_set_params, and PROVED here by the solver (params_lemma).
# None = that slicer is never selected / never reads beyond the line for this service.
ROWS = {
    0: ("ttx_a", 9304687, 2, 0), 2: ("ttx_b_625", 10406250, 2, 0), 3: ("ttx_c_625", 8601562, 2, 0), 4: ("ttx_d_625", 8464180, 2, 0),
    5: ("vps", 7500000, 0, 0), 7: ("wss_625", 5000000, 0, 0), 8: ("cc_625", 1500000, 1, 4),
    11: ("ttx_b_525", 8590908, 2, 0), 12: ("ttx_c_525", 8590908, 2, 0), 13: ("ttx_d_525", 8590908, 2, 0),
    14: ("cc_525", 1510464, 1, 4), 16: ("2xcc_525", 1510464, 2, 17),
}


def gpr(row, fmt, lo=None, hi=None):
    label, rmin, og, ol = ROWS[row]
    enum, bps, fskip, gb, lpcap = FMTS[fmt]
    g = dict(ROW=row, FMT=enum, BPS=bps, RATE_MIN=lo or rmin, RATE_MAX=hi or (1 << 27), OVER_GEN=og, OVER_LP=ol)
    return g


def obligations(tier, seed):
    known = {}   # fixed in /repo (known_findings.json)
    known_b = {}   # fixed in /repo
    known_v = {}   # fixed in /repo
    U_TAB = ["src/raw_decoder.c", "src/sampling_par.c", "src/misc.c"]
    ub_legacy = [r"decoder\.c:vbi_bit_slicer_init:shift distance too large"]
    obs = []

    # ---- layer 1: real vbi3 slicer, exact-size objects --------------------------------------------------
    q = [gp3("Y8", "ttx", 2500, 40, 0), gp3("Y8", "ttx", 2000, 32, 2), gp3("YUYV", "ttx", 3100, 46, 1),
         gp3("Y8", "vps", 4000, 44, 0), gp3("RGB16_LE", "wss", 4500, 44, 2), gp3("RGB24", "msb", 2500, 34, 0),
         gp3("RGBA32_LE", "vps", 3000, 34, 1)]
    q = q + [gp3("Y8", "lp", 25000, 70, 0)]          # one low-pass instance (the slowest quick instance; the other low-pass points are thorough)
    t = list(q)
    for fmt in ("Y8", "YUYV", "UYVY", "RGB24", "RGBA32_LE", "RGBA32_BE", "RGB16_LE", "RGB16_BE", "RGBA15_LE", "ARGB15_BE"):
        cfgs = [("ttx", 2500, 40), ("msb", 2700, 33), ("vps", 4000, 44), ("wss", 3000, 32)]
        if fmt in ("Y8", "YUYV"):
            cfgs += [("ttx", 1500, 24), ("ttx", 3100, 46), ("vps", 3000, 34), ("msb", 2000, 26), ("wss", 4500, 44)]
        for svc, rate, spl in cfgs:
            for off in (0, 3):
                g = gp3(fmt, svc, rate, spl + (off and 2), off)
                if g not in t:
                    t.append(g)
    for fmt in ("Y8", "YUYV", "RGBA32_BE"):
        for rate, spl in ((25000, 80), (26500, 76), (25000, 72)):     # long enough for at least one CRI bit inside the (repaired, shorter) search window: shorter lines are vacuous
            g = gp3(fmt, "lp", rate, spl, 0)
            if g not in t:
                t.append(g)
    obs.append(Ob("slicer_exact", harness="h_c05.c", func="h_slice_exact", unwind=64, defines=known,
                  desc="REAL vbi3_bit_slicer_set_params + vbi3_bit_slicer_slice on one line of ARBITRARY content held in an exact-size object "
                       "(samples_per_line x bytes_per_sample bytes%s), arbitrary CRI/FRC words, exact-size payload buffer: every load/store of the "
                       "slicer stays inside the objects (CBMC pointer checks), the closed form of the last byte read equals the object end, "
                       "and on failure the payload buffer is unmodified" % ("" if STRICT else " + the SLACK bytes of the known over-read, asserted tight"),
                  encodes=["vbi3_bit_slicer_set_params", "vbi3_bit_slicer_slice", "bit_slicer_Y8", "bit_slicer_YUYV", "bit_slicer_RGB24_LE",
                           "bit_slicer_RGBA24_LE", "bit_slicer_RGB16_LE", "bit_slicer_RGB16_BE", "low_pass_bit_slicer_Y8"],
                  bounds="scaled services (1..4 CRI bits, 0..2 FRC bits, 1..8 payload bits (16 for the buffer size check), 1.5..26.5 samples per bit), 24..60 samples per line, "
                         "(format, rate, samples_per_line, offset) enumerated on the grid; image content, CRI, CRI mask and FRC fully symbolic",
                  outside="full-rate lines (702..2048 samples) with symbolic content; covered by layer 2 (closed form at broadcast parameters)",
                  assumes=[] if STRICT else ["KNOWN_SLICER_OVERREAD: line object extended by the SLACK bytes the closed form predicts (known finding)"],
                  grid=t, quick_grid=q, reach=["end", "sliced", "no_signal"], timeout=900, mem_gb=3, units=U_TAB, solver="cadical"))

    # ---- layer 1, legacy interface ------------------------------------------------------------------------
    ql = [gpl("Y8", "ttx", 2500, 40), gpl("RGB16_LE", "vps1", 3000, 36), gpl("YUYV", "wss1", 3000, 35)]
    tl = list(ql)
    for fmt in ("Y8", "YUYV", "UYVY", "RGB24", "RGBA32_LE", "RGBA32_BE", "RGB16_LE", "RGB16_BE", "RGBA15_LE", "ARGB15_BE"):
        for svc, rate, spl in (("ttx", 2500, 40), ("ttx", 1500, 24), ("msb", 2700, 33), ("vps1", 4000, 48), ("wss1", 3000, 35)):
            g = gpl(fmt, svc, rate, spl)
            if g not in tl:
                tl.append(g)
    obs.append(Ob("legacy_slicer_exact", harness="h_c05_legacy.c", func="h_legacy_exact", unwind=24, defines=known,
                  desc="REAL legacy vbi_bit_slicer_init + vbi_bit_slice (decoder.c) on one line of arbitrary content in an exact-size object: "
                       "all accesses inside the objects, closed form tight, buffer unmodified on failure",
                  encodes=["vbi_bit_slicer_init", "vbi_bit_slice", "bit_slicer_tmpl", "sample"],
                  bounds="as slicer_exact; raw_samples >= length of the signal (the void init function cannot reject shorter lines)",
                  outside="raw_samples shorter than FRC+payload (cri_bytes <= 0 is converted to a huge unsigned loop count: caller error); "
                          "frc_bits == 0 or cri_bits == 0 (vbi_bit_slicer_init shifts by 32: undefined, reported separately)",
                  assumes=[] if STRICT else ["KNOWN_SLICER_OVERREAD: line object extended by the SLACK bytes the closed form predicts (known finding)"],
                  grid=tl, quick_grid=ql, reach=["end", "sliced", "no_signal"], timeout=300, mem_gb=3, solver="cadical",
                  units=["src/raw_decoder.c", "src/bit_slicer.c", "src/sampling_par.c", "src/misc.c"], ignore=ub_legacy,
                  stubs=["pthread_mutex_* not reached (slicer only)"]))

    # ---- layer 2: arithmetic lemma at broadcast parameters --------------------------------------------------
    ql2 = [gpr(2, "Y8"), gpr(5, "Y8"), gpr(14, "Y8")]
    tl2 = [gpr(r, f) for r in sorted(ROWS) for f in ("Y8", "RGB16_LE", "RGBA32_BE")]
    obs.append(Ob("params_lemma", harness="h_c05.c", func="h_params_lemma", unwind=2, defines=known,
                  desc="vbi3_bit_slicer_set_params called exactly as vbi3_raw_decoder_add_services does for one row of the REAL _vbi_service_table, with "
                       "symbolic sampling_rate, samples_per_line and sample_offset: whenever the parameters are accepted the search window lies in the "
                       "line and the closed form of the last byte any path of the slicer can read is < (samples_per_line%s) x bytes_per_sample; "
                       "rejected parameters leave the slicer unusable" % ("" if STRICT else " + OVER) with OVER the per-service known over-read bound (0 for VPS, WSS"),
                  encodes=["vbi3_bit_slicer_set_params", "_vbi_service_table"],
                  bounds="sampling_rate in [1.5 x max(cri_rate, bit_rate) (WSS 1 x), 2^27] Hz, samples_per_line <= 4096, sample_offset < 65536; "
                         "service row and pixel format on the grid; closed form tied to the real loops by slicer_exact",
                  outside="samples_per_line > 4096; cri_end other than ~0 (the raw decoder always passes ~0)",
                  assumes=[] if STRICT else ["KNOWN_SLICER_OVERREAD: asserts the measured over-read bound per service instead of 0 (known finding)"],
                  grid=tl2, quick_grid=ql2, reach=["end", "accepted", "rejected"], timeout=600, mem_gb=4, units=U_TAB, solver="cadical",
                  stubs=["_vbi_log_printf not reached (log mask 0)"]))

    # ---- layer 3: output side ------------------------------------------------------------------------------
    qb = [dict(gp3("Y8", "ttx16", 2000, 44, 0), BUFSZ=b) for b in (1, 2)] + [dict(gp3("Y8", "wss", 4500, 44, 0), BUFSZ=1)]
    tb = qb + [dict(gp3("Y8", "ttx16", 2000, 44, 0), BUFSZ=3), dict(gp3("YUYV", "vps", 3000, 34, 0), BUFSZ=1),
               dict(gp3("Y8", "msb", 2500, 34, 0), BUFSZ=1), dict(gp3("Y8", "msb", 2500, 34, 0), BUFSZ=2)]
    for g in tb:
        g["SLACK"] = 0
        g["VIN_SIZE"] = g["SPL"] * g["BPS"] + 64 + 8 + 16
    obs.append(Ob("slice_bufsize", harness="h_c05.c", func="h_slice_bufsize", unwind=24, defines=known_b,
                  desc="vbi3_bit_slicer_slice with a caller buffer of exactly buffer_size bytes (buffer_size on the grid below, at and above the payload size), "
                       "arbitrary line content: never writes outside the buffer" + ("; succeeds only if the buffer holds the payload" if STRICT else
                       " [KNOWN_SLICE_BUFSIZE_UNITS: the size check compares octets with bits, so the buffer object is sized by the payload and only the "
                       "slicer's own stores are checked]"),
                  encodes=["vbi3_bit_slicer_slice"], bounds="scaled services as slicer_exact; generous line object (output side only)",
                  assumes=[] if STRICT else ["KNOWN_SLICE_BUFSIZE_UNITS (known finding): buffer object sized max(buffer_size, payload bytes)"],
                  grid=tb, quick_grid=qb, reach=["end", "sliced"], timeout=300, mem_gb=3, units=U_TAB, solver="cadical"))

    qd = [dict(LINES=2, ILACE=0, C0=1), dict(LINES=2, ILACE=1, C0=1), dict(LINES=1, ILACE=0, C0=0)]
    td = [dict(LINES=n, ILACE=0, C0=c) for n in (1, 2) for c in range(n + 1)] + [dict(LINES=2, ILACE=1, C0=1)]
    obs.append(Ob("decode_out", harness="h_c05_out.c", func="h_decode_out", unwind=60, unwindset={"decode_pattern.1": 9},
                  desc="REAL vbi3_raw_decoder_decode on an exact-size image and pattern table with symbolic sampling parameters accepted by the REAL "
                       "_vbi_sampling_par_valid_log, symbolic pattern table (representation invariant), job table, max_lines and slicer verdicts (stub): "
                       "every row handed to the slicer lies inside the (count[0]+count[1]) x bytes_per_line image, every payload buffer is the data[] of the "
                       "next record below max_lines with size sizeof data, return value <= max_lines, records beyond the return value and the guard record "
                       "are untouched, id/line of each record as documented, and the pattern invariant (which bounds the scan of a row) is preserved",
                  encodes=["vbi3_raw_decoder_decode", "decode_pattern", "slice", "_vbi_sampling_par_valid_log"],
                  bounds="1..2 scan lines (3 lines: no verdict in 900 s; lines interact only through the output cursor and max_lines); line split between the fields and interlaced flag on the grid; bytes_per_line 12; max_lines 0..lines+1; "
                         "histories of any length by induction over the stated pattern-table invariant (initial/add/remove: C04 pattern obligations)",
                  outside="debug mode (vbi3_bit_slicer_slice_with_points sampling point collection)",
                  stubs=["models/c05_slicer_stub.h: bit slicer replaced by its contract (arbitrary verdict, writes <= buffer_size bytes); checks its arguments"],
                  assumes=["pattern table invariant st_pat_inv (entries <= n_jobs; in every row the first or the last way is not a job)",
                           "sampling parameters accepted by _vbi_sampling_par_valid_log; image object of exactly (count[0]+count[1]) x bytes_per_line bytes"],
                  grid=td, quick_grid=qd, reach=["end", "output_full", "two_records"], timeout=900, mem_gb=3, vin_size=512,
                  noflags=["--pointer-overflow-check"],   # see ub_note in the report: raw += pitch after the last interlaced row (never dereferenced)
                  units=["src/sampling_par.c", "src/misc.c"]))
    obs.append(Ob("sampling_par_valid", harness="h_c05_out.c", func="h_par_valid", unwind=4, defines=known_v,
                  desc="_vbi_sampling_par_valid_log with fully symbolic parameters: accepted => bytes_per_line > 0 and a multiple of the pixel size (so that "
                       "samples_per_line x bytes_per_pixel <= bytes_per_line), some lines, known scanning, known start lines with their counts inside the "
                       "field, interlaced => equal non-zero counts",
                  encodes=["_vbi_sampling_par_valid_log", "range_check", "_vbi_videostd_set_from_scanning"], bounds="none (all fields 32-bit symbolic)",
                  outside="count[] of a field whose start line is unknown (0) is not range checked by the function (not required by the property)",
                  assumes=[] if STRICT else ["KNOWN_VALID_LOG_NEGATIVE_BPL (known finding): negative bytes_per_line passes the validator; assumed positive after asserting != 0"],
                  reach=["end", "accepted", "rejected"], timeout=120, mem_gb=2, vin_size=64, units=["src/sampling_par.c", "src/misc.c"]))
    return obs
