"""C17 - search finds exactly the pages containing the pattern, in page order, and ends (claimed PARTLY).

Claimed: walk/stop/termination logic of search.c with an abstract matcher, literal escaping, haystack construction.
Outside: the regex engine ure.c (DFA construction on realloc-grown heap tables) and therefore "as an independent matcher
decides on the same text" and "the returned page highlights a real occurrence"; the real page walk of
cache.c:_vbi_cache_foreach_page (replaced by a model here; the cache is C10's subject); vbi_format_vt_page (C02/C03).

VERIF_C17_STRICT=1 drops the KNOWN_* defines (the affected obligations then come back refuted with a replay).
"""
import os
from vlib.runner import Ob

STRICT = os.environ.get("VERIF_C17_STRICT") == "1"

# goto-cc rejects `int vbi_search_next(...)' after the prototype `vbi_search_status vbi_search_next(...)'
PATCH = {"src/search.c": [(r"\nint\nvbi_search_next\(vbi_search \*search, vbi_page \*\*pg, int dir\)",
                           "\nvbi_search_status\nvbi_search_next(vbi_search *search, vbi_page **pg, int dir)")]}

# walk obligation only: the callbacks are cut at the comment "To Unicode" (after stop tests, LOP filter, format call): return c17_cut(...)
CUT = "\t{ extern int c17_cut(vbi_search *, cache_page *, int, int, int); return c17_cut(s, vtp, %s, start, %s); }\n"
PATCH_WALK = {"src/search.c": PATCH["src/search.c"] + [
    (r"\t/\* To Unicode \*/\n\n(\thp = s->haystack;\n\tfirst = hp;)", (CUT % ("_this", "+1")).replace("\\", "\\\\") + r"\1"),
    (r"\t/\* To Unicode \*/\n\n(\thp = s->haystack;\n\trow = \(this == start\))", (CUT % ("this", "-1")).replace("\\", "\\\\") + r"\1")]}

# haystack obligation: page slice of text rows 1..2 (-DLAST_ROW=3): with the real 23 rows the write position in the haystack is symbolic for 900
# further iterations after the first symbolic cell (no verdict in 300 s)
PATCH_ROWS = {"src/search.c": PATCH["src/search.c"] + [(r"#define LAST_ROW 24", "#ifndef LAST_ROW\n#define LAST_ROW 24\n#endif")]}

STUBS = ["_vbi_cache_foreach_page = harness model: walks the cached subset of a sorted universe of NP pages in cyclic (pgno, subno) order from the "
         "given position, `wrapped' after the page number wrapped, stops when the callback returns non-zero, 0 when nothing is cached",
         "vbi_format_vt_page = blank 25x41 page carrying pgno/subno (haystack obligation: rows 1-2 symbolic at columns 0..HC-1, 39, 40)",
         "walk obligation: haystack construction + ure_exec + highlight of search_page_fwd/_rev replaced (textual cut of the scratch copy at the comment "
         "'To Unicode') by c17_cut: one occurrence per matching page, no further occurrence when the search resumes inside the page found last",
         "haystack obligation: ure_exec = records its arguments, returns 'no match'",
         "ure_buffer_create/ure_compile/ure_dfa_free/ure_buffer_free = dummies recording their arguments",
         "src/search.c compiled from a scratch copy: return type of the vbi_search_next definition aligned with its prototype"]


def obligations(tier, seed):
    known = {} if STRICT else {"KNOWN_C17_NO_STOP_PAGE": 1}
    common = dict(harness="h_c17.c", stubs=STUBS)
    walk_desc = ("up to NCALLS successive vbi_search_next calls, direction symbolic per call, start page/subpage symbolic (0x100..0x8FF incl. hex numbers, "
                 "subpage valid or VBI_ANY_SUBNO), universe of NP pages (page number, subpage, LOP or not, matching or not, position of the occurrence: all "
                 "symbolic), which of them are cached symbolic per call: every call returns (walk model asserts the callback stops it within one wrapped "
                 "cycle), status and returned (pgno, subno) equal the oracle: nearest matching cached LOP page ahead of the cursor and before the "
                 "origin of the pass, each once per pass, NOT_FOUND when none is left (then the pass restarts), CACHE_EMPTY iff nothing is cached, "
                 "direction change = new pass from the cursor")
    us = {"ure_compile.0": 17, "strchr.0": 31, "ucs2_strlen.0": 3, "search_page_rev.2": 3}
    us_hay = dict(us)
    obs = [
        Ob("walk", func="h_c17_walk", desc=walk_desc,
           encodes=["vbi_search_new", "vbi_search_next", "search_page_fwd", "search_page_rev", "highlight", "vbi_search_delete"],
           defines=dict(known), unwind=12, unwindset=us, patch=PATCH_WALK,
           grid=[dict(NP=2, NCALLS=3), dict(NP=1, NCALLS=4), dict(NP=3, NCALLS=3), dict(NP=2, NCALLS=4), dict(NP=3, NCALLS=4)],
           quick_grid=[dict(NP=2, NCALLS=3), dict(NP=1, NCALLS=4)],
           bounds="NP <= 3 pages in the universe, NCALLS <= 4 calls, direction symbolic per call; one occurrence per matching page; page contents fixed over "
                  "the calls, membership in the cache symbolic per call; callbacks cut after the format call (c17_cut)",
           assumes=[] if STRICT else ["KNOWN_C17_NO_STOP_PAGE (known finding): in every call some cached page lies at or beyond the origin of the pass "
                                      "(forward: key >= origin, backward: key <= origin); without such a page the real walk never ends"],
           outside="progress callback / CANCELED, formatting errors, replaced page contents between calls, more than one occurrence per page, ure.c",
           reach=["end", "empty", "found_in_last_call", "not_found_after_success_or_restart"], timeout=600, mem_gb=6, vin_size=96, **common),
        Ob("escape", func="h_c17_escape",
           desc="literal search (regexp == FALSE): the pattern handed to ure_compile is the input with a backslash in front of every character of the "
                "metacharacter list, all characters kept in order, nothing appended, length <= 2 x input (the malloc'ed buffer), and a backslash is never put in "
                "front of a character whose meaning it would change (ure.c escape letters); empty pattern rejected; casefold passed through",
           encodes=["vbi_search_new", "ucs2_strlen", "vbi_search_delete"], defines={"NP": 1, "PLEN": 5}, patch=PATCH,
           unwind=8, unwindset={"ure_compile.0": 17, "strchr.0": 31, "c17_is_meta.0": 31},
           bounds="pattern of <= 5 symbolic UCS-2 characters (first NUL ends it)",
           outside="note: characters >= 0x100 whose low byte is NUL or a metacharacter get a (harmless) backslash too - strchr() converts its int argument to char; "
                   "-DC17_STRICT_ESCAPE turns that into a failure",
           reach=["end", "empty", "harmless_extra_backslash", "all_escaped"], timeout=300, mem_gb=4, vin_size=32, **common),
        Ob("haystack", func="h_c17_haystack",
           desc="haystack construction of search_page_fwd (through vbi_search_next on a one-page cache): text rows, columns 0..39 in order, one character per "
                "normal/double-height/double-width/double-size cell, continuation cells (OVER_TOP/OVER_BOTTOM/DOUBLE_HEIGHT2/DOUBLE_SIZE2) skipped, one "
                "separator 0x000A per row, total length as computed and within the haystack buffer; matcher run once on the whole text",
           encodes=["search_page_fwd", "vbi_search_next", "vbi_search_new"], defines={"NP": 1, "HC": 2, "LAST_ROW": 3}, grid=[dict(SIZES=v) for v in ("0000", "1400", "3400", "2014", "4500", "6734", "0734", "2234", "5600", "1434")],
           quick_grid=[dict(SIZES=v) for v in ("0000", "1400", "2014", "6734")],
           unwind=42, unwindset=us_hay, patch=PATCH_ROWS,
           bounds="search.c compiled with LAST_ROW = 3: page slice of text rows 1..2 (same row loop; with 23 rows symex needs ~20 s per row and grows: > 8 min); "
                  "rows 1 and 2 carry symbolic cells at columns 0, 1, 39, 40 (unicode and all attributes symbolic, the SIZE "
                  "attribute of the four cells enumerated on the grid: 10 patterns covering normal, double width/height/size, continuation cells; symbolic "
                  "sizes: 10 GB / no verdict even for one row), other cells blank",
           assumes=["documented vbi_page invariant (format.h, vbi_size): the right neighbour of a DOUBLE_WIDTH/DOUBLE_SIZE cell is an OVER_TOP cell with the same unicode"],
           outside="search_page_rev's copy of the same loop (covered only through the walk obligation on blank pages)",
           reach=["end"], timeout=300, mem_gb=4, vin_size=96, **common),
    ]
    return obs
