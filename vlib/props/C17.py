"""C17 - search finds exactly the pages containing the pattern, in page order, and ends (claimed PARTLY).

Claimed: walk/stop/termination logic of search.c with an abstract matcher, literal escaping.
Not decided: haystack construction (harness exists, no verdict inside the caps - numbers below).
Outside: the regex engine ure.c (DFA construction on realloc-grown heap tables) and therefore "as an independent matcher
decides on the same text" and "the returned page highlights a real occurrence"; the real page walk of
cache.c:_vbi_cache_foreach_page (replaced by a model here; the cache is C10's subject); vbi_format_vt_page (C02/C03).

VERIF_C17_STRICT=1 drops the KNOWN_* defines (the affected obligations then come back refuted with a replay).
"""
import os
from vlib.runner import Ob

STRICT = True   # the defects these guards masked are fixed in /repo; the obligations state the property as written

# goto-cc rejects `int vbi_search_next(...)' after the prototype `vbi_search_status vbi_search_next(...)'
PATCH = {"src/search.c": [(r"\nint\nvbi_search_next\(vbi_search \*search, vbi_page \*\*pg, int dir\)",
                           "\nvbi_search_status\nvbi_search_next(vbi_search *search, vbi_page **pg, int dir)")]}

# walk obligation only: the callbacks are cut at the comment "To Unicode" (after stop tests, LOP filter, format call): return c17_cut(...)
CUT = "\t{ extern int c17_cut(vbi_search *, cache_page *, int, int, int); return c17_cut(s, vtp, %s, start, %s); }\n"
PATCH_WALK = {"src/search.c": PATCH["src/search.c"] + [
    (r"\t/\* To Unicode \*/\n\n(\thp = s->haystack;\n\tfirst = hp;)", (CUT % ("_this", "+1")).replace("\\", "\\\\") + r"\1"),
    (r"\t/\* To Unicode \*/\n\n(\thp = s->haystack;\n\trow = \(this == start\))", (CUT % ("this", "-1")).replace("\\", "\\\\") + r"\1")]}

# haystack obligation: page slice of text rows 1..2 (-DLAST_ROW=3): with the real 23 rows the write position in the haystack is symbolic for 900
# further iterations after the first symbolic cell (no verdict in 300 s)
PATCH_ROWS = {"src/search.c": PATCH["src/search.c"] + [(r"#define LAST_ROW 24", "#ifndef LAST_ROW\n#define LAST_ROW 24\n#endif")]}

STUBS = ["_vbi_cache_foreach_page = harness model: walks the cached subset of a sorted universe of NP pages in cyclic (pgno, subno) order from the "
         "given position, `wrapped' after the page number wrapped, stops when the callback returns non-zero, 0 when nothing is cached",
         "vbi_format_vt_page = blank 25x41 page carrying pgno/subno (haystack obligation: rows 1-2 symbolic at columns 0..HC-1, 39, 40)",
         "walk obligation: haystack construction + ure_exec + highlight of search_page_fwd/_rev replaced (textual cut of the scratch copy at the comment "
         "'To Unicode') by c17_cut: one occurrence per matching page, no further occurrence when the search resumes inside the page found last",
         "haystack obligation: ure_exec = records its arguments, returns 'no match'",
         "ure_buffer_create/ure_compile/ure_dfa_free/ure_buffer_free = dummies recording their arguments",
         "src/search.c compiled from a scratch copy: return type of the vbi_search_next definition aligned with its prototype"]


def obligations(tier, seed):
    known = {}   # fixed in /repo (known_findings.json)
    common = dict(harness="h_c17.c", stubs=STUBS)
    walk_desc = ("up to NCALLS successive vbi_search_next calls, direction symbolic per call, start page/subpage symbolic (0x100..0x8FF incl. hex numbers, "
                 "subpage valid or VBI_ANY_SUBNO), universe of NP pages (page number, subpage, LOP or not, matching or not, position of the occurrence: all "
                 "symbolic), which of them are cached symbolic per call: every call returns (walk model asserts the callback stops it within one wrapped "
                 "cycle), status and returned (pgno, subno) equal the oracle: nearest matching cached LOP page ahead of the cursor and before the "
                 "origin of the pass, each once per pass, NOT_FOUND when none is left (then the pass restarts), CACHE_EMPTY iff nothing is cached, "
                 "direction change = new pass from the cursor")
    us = {"ure_compile.0": 17, "strchr.0": 31, "ucs2_strlen.0": 3, "search_page_rev.2": 3}
    us_hay = dict(us)
    obs = [
        Ob("walk", func="h_c17_walk", desc=walk_desc,
           encodes=["vbi_search_new", "vbi_search_next", "search_page_fwd", "search_page_rev", "highlight", "vbi_search_delete"],
           defines=dict(known), unwind=12, unwindset=us, patch=PATCH_WALK,
           # measured on the loaded machine: NP=1/NCALLS=4 70-80 s, NP=2/NCALLS=2 84 s, NP=2/NCALLS=3 170-360 s (0.9 GB); NP=3/NCALLS=3: no verdict in 900 s (dropped)
           grid=[dict(NP=2, NCALLS=2), dict(NP=1, NCALLS=4), dict(NP=2, NCALLS=3)],
           quick_grid=[dict(NP=2, NCALLS=2), dict(NP=1, NCALLS=4)],
           bounds="(NP pages in the universe, NCALLS calls) = (2,2), (1,4) quick, + (2,3) thorough; direction symbolic per call; one occurrence per matching page; page contents fixed over "
                  "the calls, membership in the cache symbolic per call; callbacks cut after the format call (c17_cut)",
           assumes=[] if STRICT else ["KNOWN_C17_NO_STOP_PAGE (known finding): in every call some cached page lies at or beyond the origin of the pass "
                                      "(forward: key >= origin, backward: key <= origin); without such a page the real walk never ends"],
           outside="progress callback / CANCELED, formatting errors, replaced page contents between calls, more than one occurrence per page, ure.c",
           reach=["end", "empty", "found_in_last_call", "not_found_after_success_or_restart"], timeout=900, mem_gb=6, vin_size=96, **common),
        Ob("escape", func="h_c17_escape",
           desc="literal search (regexp == FALSE): the pattern handed to ure_compile is the input with a backslash in front of every character of the "
                "metacharacter list, all characters kept in order, nothing appended, length <= 2 x input (the malloc'ed buffer), and a backslash is never put in "
                "front of a character whose meaning it would change (ure.c escape letters); empty pattern rejected; casefold passed through",
           encodes=["vbi_search_new", "ucs2_strlen", "vbi_search_delete"], defines={"NP": 1, "PLEN": 5}, patch=PATCH,
           unwind=8, unwindset={"ure_compile.0": 17, "strchr.0": 31, "c17_is_meta.0": 31},
           bounds="pattern of <= 5 symbolic UCS-2 characters (first NUL ends it)",
           outside="note: characters >= 0x100 whose low byte is NUL or a metacharacter get a (harmless) backslash too - strchr() converts its int argument to char; "
                   "-DC17_STRICT_ESCAPE turns that into a failure",
           reach=["end", "empty", "harmless_extra_backslash", "all_escaped"], timeout=300, mem_gb=4, vin_size=32, **common),
        # haystack construction (h_c17_haystack in harness/h_c17.c) is NOT registered: no encoding produced a verdict.  Measured: 23 rows, symbolic
        # cells: timeout 300 s; 2-row slice (LAST_ROW = 3), 2 x 5 symbolic cells: 7.5 GB then out of memory at 170 s; 1 row, 4 cells: 10 GB at 100 s; size
        # attributes enumerated on the grid (all pointers concrete), 23 rows: symex ~20 s per row and growing (> 8 min); same on the 2-row slice: 7.5 GB /
        # 300 s in the propositional phase, also with --no-array-field-sensitivity (10.5 GB / 400 s) and --max-field-sensitivity-array-size 1100
        # (2.4 GB / 400 s).  Cause: every `*hp++ = ...' is a store through a pointer into the 12 KB search object whose offset the value-set
        # analysis does not keep -> byte_update of the whole object per character (DESIGN.md rule R2).
    ]
    return obs
