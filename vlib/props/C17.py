"""C17 - search finds exactly the pages containing the pattern, in page order, and ends (claimed PARTLY).

Claimed: walk/stop/termination logic of search.c with an abstract matcher, literal escaping.
Not decided: haystack construction (harness exists, no verdict inside the caps - numbers below).
Outside: the regex engine ure.c (DFA construction on realloc-grown heap tables) and therefore "as an independent matcher
decides on the same text" and "the returned page highlights a real occurrence"; the real page walk of
cache.c:_vbi_cache_foreach_page (replaced by a model here; the cache is C10's subject); vbi_format_vt_page (C02/C03).

VERIF_C17_STRICT=1 drops the KNOWN_* defines (the affected obligations then come back refuted with a replay).
"""
import os
from vlib.runner import Ob
from vlib.extract import c_functions


def _extract_foreach(txt):
    """scratch copy of cache.c: file head (includes, configuration macros) + the one function under test, from the CURRENT source"""
    return c_functions(txt, ["_vbi_cache_foreach_page"], keep_head_until=r"^static void$")


STRICT = True   # the defects these guards masked are fixed in /repo; the obligations state the property as written

# goto-cc rejects `int vbi_search_next(...)' after the prototype `vbi_search_status vbi_search_next(...)'
PATCH = {"src/search.c": [(r"\nint\nvbi_search_next\(vbi_search \*search, vbi_page \*\*pg, int dir\)",
                           "\nvbi_search_status\nvbi_search_next(vbi_search *search, vbi_page **pg, int dir)")]}

# walk obligation only: the callbacks are cut at the comment "To Unicode" (after stop tests, LOP filter, format call): return c17_cut(...)
CUT = "\t{ extern int c17_cut(vbi_search *, cache_page *, int, int, int); return c17_cut(s, vtp, %s, start, %s); }\n"
PATCH_WALK = {"src/search.c": PATCH["src/search.c"] + [
    (r"\t/\* To Unicode \*/\n\n(\thp = s->haystack;\n\tfirst = hp;)", (CUT % ("_this", "+1")).replace("\\", "\\\\") + r"\1"),
    (r"\t/\* To Unicode \*/\n\n(\thp = s->haystack;\n\trow = \(this == start\))", (CUT % ("this", "-1")).replace("\\", "\\\\") + r"\1")]}

# haystack obligation: page slice of text rows 1..2 (-DLAST_ROW=3): with the real 23 rows the write position in the haystack is symbolic for 900
# further iterations after the first symbolic cell (no verdict in 300 s)
PATCH_ROWS = {"src/search.c": PATCH["src/search.c"] + [(r"#define LAST_ROW 24", "#ifndef LAST_ROW\n#define LAST_ROW 24\n#endif")]}

STUBS = ["_vbi_cache_foreach_page = harness model: walks the cached subset of a sorted universe of NP pages in cyclic (pgno, subno) order from the "
         "given position, `wrapped' after the page number wrapped, stops when the callback returns non-zero, 0 when nothing is cached",
         "vbi_format_vt_page = blank 25x41 page carrying pgno/subno (haystack obligation: rows 1-2 symbolic at columns 0..HC-1, 39, 40)",
         "walk obligation: haystack construction + ure_exec + highlight of search_page_fwd/_rev replaced (textual cut of the scratch copy at the comment "
         "'To Unicode') by c17_cut: one occurrence per matching page, no further occurrence when the search resumes inside the page found last",
         "haystack obligation: ure_exec = records its arguments, returns 'no match'",
         "ure_buffer_create/ure_compile/ure_dfa_free/ure_buffer_free = dummies recording their arguments",
         "src/search.c compiled from a scratch copy: return type of the vbi_search_next definition aligned with its prototype"]


def _fe(**kw):
    return kw


# page numbers / subpage windows / presence mask (bit c*3+s) / start page / direction
FOREACH_GRID = [
    _fe(NC=2, PG0=0x150, PG1=0x151, SM0=0, SM1=1, PRES=0b001101, START_PG=0x200, START_SUB=0, DIR=1),      # nothing cached at or above the start page (4f8119b)
    _fe(NC=2, PG0=0x150, PG1=0x151, SM0=0, SM1=1, PRES=0b001101, START_PG=0x120, START_SUB=-1, DIR=-1),    # nothing cached at or below it, VBI_ANY_SUBNO
    _fe(NC=2, PG0=0x150, PG1=0x151, SM0=0, SM1=1, PRES=0b110011, START_PG=0x150, START_SUB=1, DIR=1),      # start page cached, several subpages
    _fe(NC=2, PG0=0x150, PG1=0x151, SM0=0, SM1=1, PRES=0b110011, START_PG=0x151, START_SUB=-1, DIR=-1, ANYSEL=0),    # VBI_ANY_SUBNO on a page with two cached subpages:
    _fe(NC=2, PG0=0x150, PG1=0x151, SM0=0, SM1=1, PRES=0b110011, START_PG=0x151, START_SUB=-1, DIR=-1, ANYSEL=1),    # the look-up returns the first / the second
    _fe(NC=2, PG0=0x150, PG1=0x151, SM0=0, SM1=1, PRES=0b110011, START_PG=0x150, START_SUB=2, DIR=-1),     # start subpage inside the statistics window but not cached
    _fe(NC=3, PG0=0x100, PG1=0x47A, PG2=0x8FF, SM0=0, SM1=0x10, SM2=2, PRES=0b101010001, START_PG=0x8FF, START_SUB=5, DIR=1),   # first/last page number, hex page, start above the window
    _fe(NC=3, PG0=0x100, PG1=0x47A, PG2=0x8FF, SM0=0, SM1=0x10, SM2=2, PRES=0b101010001, START_PG=0x100, START_SUB=0, DIR=-1),
    _fe(NC=2, PG0=0x150, PG1=0x151, SM0=0, SM1=1, PRES=0b010000, START_PG=0x151, START_SUB=2, DIR=1),      # one page only, walk starts on it
]


def obligations(tier, seed):
    known = {}   # fixed in /repo (known_findings.json)
    common = dict(harness="h_c17.c", stubs=STUBS)

    walk_desc = ("up to NCALLS successive vbi_search_next calls, direction symbolic per call, start page/subpage symbolic (0x100..0x8FF incl. hex numbers, "
                 "subpage valid or VBI_ANY_SUBNO), universe of NP pages (page number, subpage, LOP or not, matching or not, position of the occurrence: all "
                 "symbolic), which of them are cached symbolic per call: every call returns (walk model asserts the callback stops it within one wrapped "
                 "cycle), status and returned (pgno, subno) equal the oracle: nearest matching cached LOP page ahead of the cursor and before the "
                 "origin of the pass, each once per pass, NOT_FOUND when none is left (then the pass restarts), CACHE_EMPTY iff nothing is cached, "
                 "direction change = new pass from the cursor")
    us = {"ure_compile.0": 17, "strchr.0": 31, "ucs2_strlen.0": 3, "search_page_rev.2": 3}
    us_hay = dict(us)
    obs = [
        Ob("walk", func="h_c17_walk", desc=walk_desc,
           encodes=["vbi_search_new", "vbi_search_next", "search_page_fwd", "search_page_rev", "highlight", "vbi_search_delete"],
           defines=dict(known), unwind=12, unwindset=us, patch=PATCH_WALK,
           # measured on the loaded machine: NP=1/NCALLS=4 70-80 s, NP=2/NCALLS=2 84 s, NP=2/NCALLS=3 170-360 s (0.9 GB); NP=3/NCALLS=3: no verdict in 900 s (dropped)
           grid=[dict(NP=2, NCALLS=2), dict(NP=1, NCALLS=4), dict(NP=2, NCALLS=3)],
           quick_grid=[dict(NP=2, NCALLS=2), dict(NP=1, NCALLS=4)],
           bounds="(NP pages in the universe, NCALLS calls) = (2,2), (1,4) quick, + (2,3) thorough; direction symbolic per call; one occurrence per matching page; page contents fixed over "
                  "the calls, membership in the cache symbolic per call; callbacks cut after the format call (c17_cut)",
           assumes=[] if STRICT else ["KNOWN_C17_NO_STOP_PAGE (known finding): in every call some cached page lies at or beyond the origin of the pass "
                                      "(forward: key >= origin, backward: key <= origin); without such a page the real walk never ends"],
           outside="progress callback / CANCELED, formatting errors, replaced page contents between calls, more than one occurrence per page, ure.c",
           reach=["end", "empty", "found_in_last_call", "not_found_after_success_or_restart"], timeout=900, mem_gb=6, vin_size=96, **common),
        Ob("escape", func="h_c17_escape",
           desc="literal search (regexp == FALSE): the pattern handed to ure_compile is the input with a backslash in front of every character of the "
                "metacharacter list, all characters kept in order, nothing appended, length <= 2 x input (the malloc'ed buffer), and a backslash is never put in "
                "front of a character whose meaning it would change (ure.c escape letters); empty pattern rejected; casefold passed through",
           encodes=["vbi_search_new", "ucs2_strlen", "vbi_search_delete"], defines={"NP": 1, "PLEN": 5}, patch=PATCH,
           unwind=8, unwindset={"ure_compile.0": 17, "strchr.0": 31, "c17_is_meta.0": 31},
           bounds="pattern of <= 5 symbolic UCS-2 characters (first NUL ends it)",
           outside="note: characters >= 0x100 whose low byte is NUL or a metacharacter get a (harmless) backslash too - strchr() converts its int argument to char; "
                   "-DC17_STRICT_ESCAPE turns that into a failure",
           reach=["end", "empty", "harmless_extra_backslash", "all_escaped"], timeout=300, mem_gb=4, vin_size=32, **common),
        Ob("foreach_real", harness="h_c17_foreach.c", func="h_c17_foreach",
           desc="the REAL _vbi_cache_foreach_page (extracted from the current cache.c) over the real per-page statistics table: callback sees exactly the cached pages in cyclic "
                "(pgno, subno) order from the start position (ascending / descending), `wrapped' FALSE until the page number wrapped, none skipped, one reference each, given "
                "back; a non-zero callback result ends the walk and is returned; nothing cached: 0; a callback that never stops: the walk ENDS with -1 after one wrapped cycle "
                "(unwinding assertions = termination; this is the contract the model of the walk obligation assumes)",
           encodes=["_vbi_cache_foreach_page", "cache_network_page_stat"], patch={"src/cache.c": _extract_foreach},
           stubs=["_vbi_cache_get_page = look-up in a population of NC x W slots (page numbers and subpage windows from the grid), counts references; VBI_ANY_SUBNO: "
                  "symbolic choice among the cached subpages of the page", "cache_page_unref = reference counter",
                  "cache.c reduced to its head and _vbi_cache_foreach_page by textual extraction from the current source"],
           assumes=["statistics invariant of cache.c (C10: seq_put_put*, subno range obligations): n_subpages == number of cached subpages of the page, "
                    "subno_min <= cached subno <= subno_max (range possibly wider)"],
           # measured (loaded machine, 3 jobs): 135-270 s / <= 94 MB per instance, all of it symex (2 x 0x800 iterations of the skip loop at 20-50 ms: every statistics read copies
           # the 2048-entry array constant); 10 K variables for the solver.  Default field sensitivity: 0.5 s per iteration (each `ps->' expands all fields of the 43 KB
           # cache_network); statistics set by assignments instead of a static initialiser: reads do not fold, no verdict in 600 s
           tier="thorough", flags=["--max-field-sensitivity-array-size", "4"],
           grid=FOREACH_GRID, unwind=8, unwindset={"_vbi_cache_foreach_page.1": 40, "_vbi_cache_foreach_page.0": 2060},
           bounds="populations: <= 3 page numbers x windows of 3 subpage numbers, page numbers and windows on the grid (two neighbours below the start page = the scenario of "
                  "4f8119b, first/last page number, hex page, start page cached / not cached), presence mask of the 6..9 slots, start page and subpage (cached, inside the window "
                  "but not cached, above it, VBI_ANY_SUBNO) on the grid, both directions; which cached subpage a VBI_ANY_SUBNO look-up returns: grid; symbolic: the callback invocation that stops the walk (or none) and its result",
           outside="subpage windows wider than 3 (clock pages 0x0000..0x2359: the walk then probes every number in between, 9000 look-ups per page); hash and priority lists "
                   "behind _vbi_cache_get_page (C10); symbolic presence masks (page number becomes a symbolic pointer into the 0x800 entry table: measured, see report)",
           reach=["end", "stopped", "full_cycle"], timeout=900, mem_gb=4, vin_size=32),
        # haystack_rows (h_c17_haystack with the size attributes of the special cells FIXED by the grid, -DSIZES=..., characters symbolic) was tried again during the seed
        # evaluation (it would catch seeded/C17-search-fwd-row-24: length handed to the matcher 24 x 41 instead of 23 x 41) and dropped again, measured: full page, fs 4 or
        # --no-array-field-sensitivity: symex 6-7 cells/s and falling, no verdict in 600 s; 2-row slice (-DLAST_ROW=3): symex 9 s, then 24.7 GB in the SSA -> SAT conversion
        # after 280 s.  The 12 KB search object (page text 1056 cells + haystack 1026 characters) is one constant after calloc; every store makes a new 1 K element array constant.
        # highlight_positions (h_c17_highlight with ms, me symbolic: continuation positions left by highlight() for a match anywhere on the page) is NOT registered: full
        # page no verdict in 900 s / 700 MB, 3 row slice (-DLAST_ROW=4) out of memory at 9.4 GB after 273 s (every cell iteration has a symbolic early return and up to four
        # guarded stores into the 1056 cell page array).  Only the candidate below (match position on the grid, earlier state symbolic) is decided.
    ] + ([
        # FORMER CANDIDATES (refuted the pinned tree; the defects are repaired by fix commits, the obligations now guard them): (TODO-defect-candidates.md items 8, 9)
        Ob("highlight_first_cell", func="h_c17_highlight",
           desc="continuation positions left by highlight() for a match that begins in row 1 column 0 (match [0, 1)), from ANY earlier value of "
                "row[1]/col[1]: they must become row 1 / column 0 (the cell the match starts in); refuted: they are written only for cells in front of the match and stay "
                "stale, the next backward call searches the whole page again and finds the same occurrence - NOT_FOUND never comes",
           encodes=["highlight"], defines={"NP": 1, "HL_MS": 0}, grid=[dict(HL_ME=1)], patch=PATCH,     # HL_ME=41 (match over the whole first row): no verdict in 900 s (82 stores into the 1056 cell page constant) unwind=42,
           unwindset=dict(us, **{"highlight.0": 42, "highlight.1": 25}), flags=["--max-field-sensitivity-array-size", "4"],
           bounds="match position concrete, earlier continuation state symbolic; all cells NORMAL_SIZE", reach=["end", "match_in_first_cell"], timeout=900, mem_gb=6, vin_size=32, **common),
        Ob("foreach_real_start_outside_window", harness="h_c17_foreach.c", func="h_c17_foreach",
           desc="foreach_real with the start subpage OUTSIDE the subpage range of a start page that has cached subpages ahead: forward from subpage 0 of a page caching subpages "
                "1..3 (what vbi_search_new(pgno, VBI_ANY_SUBNO) does for every multi-subpage page), backward from 0x3F7E: the skip loop leaves the page instead of entering "
                "its range, its subpages are presented only after the wrap - where search_page_fwd/_rev stop before searching them",
           encodes=["_vbi_cache_foreach_page"], patch={"src/cache.c": _extract_foreach}, flags=["--max-field-sensitivity-array-size", "4"],
           grid=[_fe(NC=2, PG0=0x150, PG1=0x151, SM0=0, SM1=2, PRES=0b011001, START_PG=0x151, START_SUB=0, DIR=1),     # subpages 2, 3 cached, walk starts at subpage 0
                 _fe(NC=2, PG0=0x150, PG1=0x151, SM0=0, SM1=1, PRES=0b011001, START_PG=0x151, START_SUB=0x3F7E, DIR=-1)],
           unwind=8, unwindset={"_vbi_cache_foreach_page.1": 40, "_vbi_cache_foreach_page.0": 2060}, bounds="2 populations",
           reach=["end"], timeout=900, mem_gb=4, vin_size=32),
    ] if True else []) + [   # former candidates: the defects they decide are repaired in /repo (see known_findings.json)
        # haystack construction with SYMBOLIC sizes (h_c17_haystack without SIZES) is NOT registered: no encoding produced a verdict.  Measured: 23 rows, symbolic
        # cells: timeout 300 s; 2-row slice (LAST_ROW = 3), 2 x 5 symbolic cells: 7.5 GB then out of memory at 170 s; 1 row, 4 cells: 10 GB at 100 s; size
        # attributes enumerated on the grid (all pointers concrete), 23 rows: symex ~20 s per row and growing (> 8 min); same on the 2-row slice: 7.5 GB /
        # 300 s in the propositional phase, also with --no-array-field-sensitivity (10.5 GB / 400 s) and --max-field-sensitivity-array-size 1100
        # (2.4 GB / 400 s).  Cause: every `*hp++ = ...' is a store through a pointer into the 12 KB search object whose offset the value-set
        # analysis does not keep -> byte_update of the whole object per character (DESIGN.md rule R2).
    ]
    return obs
