from vlib.runner import Ob
from vlib.extract import c_functions


def _extract(txt):
    return c_functions(txt, ["unham_page_link", "station_lookup", "unknown_cni", "vbi_decode_vps", "parse_bsd", "parse_8_30"],
                       keep_head_until=r"^static void$", extra_lines=("#define TTX_EVENTS", "#define BSDATA_EVENTS"))


def _extract_vbi(txt):
    return c_functions(txt, ["vbi_chsw_reset", "vbi_reset_prog_info"])


def obligations(tier, seed):
    H = dict(harness="h_c13.c", patch={"src/packet.c": _extract}, units=["src/hamm.c", "src/vps.c", "src/packet-830.c"], vin_size=128, flags=["--no-undefined-shift-check"],
             stubs=["struct caption and struct teletext carved out of vbi_decoder; packet.c reduced to the six announcement functions by textual extraction from the current source", "vbi_send_event: snapshot log", "vbi_chsw_reset (drops the old station's cache): call log",
                    "vbi_cni_table: 3 stations of the real struct type (tables.c not linked)", "cache functions: unused stubs"],
             unwindset={"bytes_eq.0": 20, "ref_station.0": 5, "ref_station.1": 5, "station_lookup.0": 5, "station_lookup.1": 5, "station_lookup.2": 5, "station_lookup.3": 5,
                        "_vbi_strlcpy.0": 70, "memcmp.0": 80, "ref_unham8.0": 20})
    kq, kt = 3, 5
    return [
        Ob("vps_debounce", func="h_vps_debounce", unwind=16,
           desc="vbi_decode_vps over every history of K receptions drawn from two arbitrary 13-byte lines: a CNI is announced (NETWORK_ID carrying exactly the transmitted CNI, "
                "0xDC3 rule included) at its second consecutive identical reception and at no other time; NETWORK event + cache drop exactly when the identified station "
                "changes (so A A B A A raises neither); PROG_ID only when the PDC data was repeated, carrying exactly the transmitted PIL/PTY/PCS/CNI",
           encodes=["vbi_decode_vps", "station_lookup", "vbi_decode_vps_cni", "vbi_decode_vps_pdc"],
           bounds="K receptions (4 quick, 6 thorough), two symbolic lines, symbolic pattern", grid=[dict(KREC=kt)], quick_grid=[dict(KREC=kq)],
           assumes=["CNI != 0 (0 is the decoder's initial 'no identifier' value)"], reach=["end", "announced", "progid"], timeout=900, mem_gb=6, **H),
        Ob("wss_debounce", func="h_wss_debounce", unwind=16,
           desc="vbi_decode_wss_625 over every history of K receptions of two arbitrary 14-bit words: ASPECT+PROG_INFO events only after >= 3 identical repeats with odd parity "
                "over bits 0..3, only when the decoded values differ from the announced ones, carrying the EN 300 294 table values",
           encodes=["vbi_decode_wss_625"], bounds="K receptions (5 quick, 7 thorough); time stamps increasing", grid=[dict(KREC=7)], quick_grid=[dict(KREC=5)],
           assumes=["word != 00 00 (decoder's initial last word)"], reach=["end", "announced"], timeout=900, mem_gb=6, **H),
        Ob("p8301_debounce", func="h_8301_debounce", unwind=16,
           desc="parse_8_30/parse_bsd with packets 8/30 format 1 from a reference encoder over histories of K receptions of two arbitrary CNIs: NETWORK_ID at the second "
                "consecutive identical reception only, NETWORK + cache drop exactly on station change, LOCAL_TIME event for every packet with exactly the transmitted MJD/UTC/offset",
           encodes=["parse_8_30", "parse_bsd", "unham_page_link", "vbi_decode_teletext_8301_local_time", "station_lookup"],
           bounds="K receptions (4 quick, 5 thorough)", grid=[dict(KREC=kt, C13_LT_MODEL=1, EVMAX=12)], quick_grid=[dict(KREC=4, C13_LT_MODEL=1)],   # K=4: the shortest history with a station change (A A B B); K=5: up to 9 events (5 LOCAL_TIME + 2 x NETWORK/NETWORK_ID), the log holds 8 by default
           assumes=["CNI != 0", "C13_LT_MODEL: vbi_decode_teletext_8301_local_time replaced inside this translation unit by a model returning arbitrary logged values "
                    "(assume-guarantee with C12 p8301_*, which decides the codec over its full ranges); the event must carry exactly those values"],
           reach=["end", "announced"], timeout=900, mem_gb=6, **H),
        Ob("p8302_debounce", func="h_8302_debounce", unwind=16,
           desc="parse_8_30/parse_bsd with packets 8/30 format 2 whose 13 Hamming-protected bytes are two ARBITRARY blocks, over histories of K receptions: the packet is "
                "accepted iff every protected byte is within distance 1 of a code word (independent decode); a damaged packet raises nothing and is invisible to the debounce; "
                "over the clean receptions NETWORK_ID at the second consecutive identical CNI only (carrying exactly the transmitted CNI), NETWORK + cache drop exactly on "
                "station change, PROG_ID for every clean packet with exactly the transmitted CNI/PIL/PTY",
           encodes=["parse_8_30", "parse_bsd", "vbi_decode_teletext_8302_pdc", "station_lookup"],
           bounds="K receptions (3 quick, 5 thorough), two symbolic 13-byte blocks, symbolic pattern and designation 2/3", grid=[dict(KREC=kt, EVMAX=12)], quick_grid=[dict(KREC=kq)],
           assumes=["CNI != 0", "CNI != 0x0DC3 (parse_bsd applies the VPS ARD/ZDF rule to it; the property text documents that exception for VPS only - not claimed either way)"],
           reach=["end", "announced", "damaged"], timeout=900, mem_gb=6, solver="cadical", **H),
        Ob("chsw_wss", func="h_chsw_wss", unwind=16, defines={"C13_REAL_CHSW": 1},
           desc="the REAL vbi_chsw_reset (extracted from the current vbi.c) from an arbitrary state of the WSS debouncer and aspect announcement, identified (nuid != 0) or not, "
                "followed by every history of K WSS receptions of two arbitrary words: the decoder behaves exactly like a fresh one (same reference as wss_debounce: ASPECT only "
                "after >= 3 identical repeats received on the NEW station); the reset itself raises a NETWORK event iff an identified station becomes unidentified and an ASPECT "
                "event iff a ratio had been announced, releases the old cache network and attaches a new one",
           encodes=["vbi_chsw_reset", "vbi_reset_prog_info", "vbi_decode_wss_625"], bounds="K receptions after the switch (5 quick, 7 thorough); wss_rep_ct < 1024",
           grid=[dict(KREC=7)], quick_grid=[dict(KREC=5)],
           assumes=["word != 00 00", "aspect_source in 0..2"], reach=["end", "announced", "identified", "unidentified"], timeout=900, mem_gb=6,
           **dict(H, patch={"src/packet.c": _extract, "src/vbi.c": _extract_vbi},
                  unwindset=dict(H["unwindset"], **{"vbi_reset_prog_info.0": 9, "vbi_reset_prog_info.1": 9}),
                  stubs=H["stubs"][:2] + ["cache_network_unref/_vbi_cache_add_network: call log + fresh static network (C10 decides the cache side)",
                                          "vbi_teletext_channel_switched/vbi_caption_channel_switched/vbi_trigger_flush: call counters", "pthread_mutex_lock/unlock: no-ops (single thread)"])),
    ]
