# C01: the service decoder survives every input - decided unit by unit (DESIGN 0.3 C01).
#  * Teletext packet decoder (src/packet.c): every leaf parser and the dispatcher per packet class (vlib/props/_packet.py)
#  * Closed Caption / XDS (src/caption.c, src/xds_demux.c): a selection of the C08 / C09 obligations - the same cbmc runs also check every
#    array/pointer/overflow/shift/assert() of the units, which is what C01 asks for
#  * export / rendering (src/exp-*.c, src/export.c): a selection of the C16 obligations (exact-size canvases and buffers)
# quick grids = the instances measured decisive on the unchanged tree (<= ~150 s, <= 4 GB each, machine under load); the rest is thorough.
import copy
from vlib.runner import Ob
from vlib.props._packet import packet_obs


def _sel(obs, name, grid_filter=None, quick=None, rename=None):
    """copy of obligation `name` from another property, optionally with a reduced grid (cross-module reuse: same harness, same contract)"""
    for o in obs:
        if o.name == name:
            c = copy.copy(o); c.defines = dict(o.defines); c.flags = list(o.flags)
            if grid_filter is not None:
                c.grid = [g for g in o.grid if grid_filter(g)]
            c.quick_grid = [g for g in (o.quick_grid if o.quick_grid is not None else o.grid) if grid_filter is None or grid_filter(g)] if quick is None else quick
            if rename:
                c.name = rename
            c.grid = list(c.quick_grid)      # the full grids of these obligations are run under their own property (C08/C09/C16), not again here
            return c
    raise KeyError(name)


def obligations(tier, seed):
    p = packet_obs()
    P = lambda k, vals, key="PKTSEL": setattr(p[k], "quick_grid", [g for g in p[k].grid if g.get(key) in vals])
    P("mot", (1, 9, 14, 20, 21, 24)); P("pop", (1, 4)); P("x27", (0, 6), "DESSEL"); P("ait", (1, 23)); P("lop_parity", (1, 25), "ROWSEL")
    P("mpt", (1, 10, 20, 21)); P("mpt_ex", (1, 23, 24))
    p["rows"].quick_grid = [dict(MAGN=1, PKTN=k) for k in (25, 29, 30, 31)]
    # no verdict inside the quick budget on this machine (measured: 7-11 GB / > 600 s): thorough only, with a larger memory cap
    for k in ("btt", "mip", "drcs", "addr_error", "x2829"):
        p[k].tier = "thorough"; p[k].mem_gb = max(p[k].mem_gb, 14); p[k].timeout = max(p[k].timeout, 1500)
    p["rows"].mem_gb = 12; p["pop"].mem_gb = 12; p["x27"].timeout = 2400
    obs = [p[k] for k in ("rows", "header", "header_badpage", "header_timefill", "addr_error", "mot", "pop", "x27", "ait", "btt", "mpt", "mpt_ex", "mip",
                          "drcs", "x2829", "pagelink_any", "lop_parity")]
    # ---- X/28 bookkeeping through the dispatcher (the size a cached page is allocated with depends on it: cache_page_size) ----
    from vlib.props._asm import asm_obs
    obs += [o for o in asm_obs() if o.name in ("asm_x28_designations", "asm_x28_rejected_not_recorded", "asm_header_pageno_error")]
    # ---- reference discipline of the page title query ---------------------------------------------------------
    # page_title_refs (harness/h_c01_refs.c h_page_title: every page reference vbi_page_title takes is given back; reference counting cache model, two links with a
    # symbolic function, two pages with 2 symbolic AIT entries each) is NOT registered: no verdict - 300 s timeout with 4 symbolic entries per page, out of memory at
    # 10.6 GB after 325 s with 2 (each matching entry inlines ait_title -> 12 x vbi_teletext_unicode; the early `return TRUE` keeps every later iteration alive).
    # Seeds C01-page-title-ait-ref-leak and C01-w2-enhance-unref-leak stay missed.
    # ---- caption / XDS units -------------------------------------------------------------------------------
    from vlib.props import C08, C09, C16
    o8 = C08.obligations(tier, seed); o9 = C09.obligations(tier, seed); o16 = C16.obligations(tier, seed)
    for name in ("seq_rollup_top_clamp", "seq_popon_col32"):
        try:
            obs.append(_sel(o8, name))
        except KeyError:
            pass
    try:
        inv = _sel(o8, "inv_step")
        inv.quick_grid = (inv.quick_grid or inv.grid)[::3]; inv.grid = list(inv.quick_grid)   # every 3rd command class of the C08 quick grid (memory safety of one step from an arbitrary state)
        obs.append(inv)
    except KeyError:
        pass
    obs.append(_sel(o9, "xds_demux_step", quick=[g for g in [o for o in o9 if o.name == "xds_demux_step"][0].quick_grid if g.get("C1FIX") in ("0x41", "0x0F", "-0x41") and g.get("CURC", 0) in (0, "0")]))
    obs.append(_sel(o9, "caption_xds_separator_step", quick=[g for g in [o for o in o9 if o.name == "caption_xds_separator_step"][0].quick_grid if g.get("C1FIX") in ("0x41", "0x0F") and g.get("CURC", 0) in (0, "0", 3, "3")]))
    obs.append(_sel(o9, "caption_xds_decoder", quick=[o for o in o9 if o.name == "caption_xds_decoder"][0].quick_grid[:6]))
    # ---- export / rendering ----------------------------------------------------------------------------------
    for name, n in (("draw_cc_region", 2), ("text_table", 3), ("write_mem_alloc", 3)):
        try:
            src = [o for o in o16 if o.name == name][0]
            obs.append(_sel(o16, name, quick=(src.quick_grid if src.quick_grid is not None else src.grid)[:n]))
        except (KeyError, IndexError):
            pass
    return obs
