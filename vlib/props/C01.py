from vlib.runner import Ob
from vlib.props._packet import packet_obs


def obligations(tier, seed):
    p = packet_obs()
    return [p[k] for k in ("rows", "header", "header_badpage", "header_timefill", "addr_error", "mot", "pop", "x27", "ait", "btt", "mpt", "mpt_ex", "mip", "drcs", "pagelink_any", "lop_parity")]
