import os
from vlib.runner import Ob
from vlib.props.C19 import STUBS, UB_IGNORE

# Defects of daemon/proxyd.c found by these obligations
#  F. forward_data asserted line_count < max_lines: a frame with data on every scanned line aborted the daemon     (repaired: 250f3c7; queue_capture_step)
#  I. queue_force_free compared against the moving queue head: an overflow dropped more than the oldest frame        (repaired: 5559cc9; queue_capture_step, seq_schedule)
#  G. forward_data counts a client for a new frame only if all_services != 0, although a client whose cursor is still in the queue walks onto that
#     frame (the device revoked its services in a re-computation another client caused): the frame is under-referenced, the next reader that releases
#     it trips assert(p_proxy_dev->p_sliced == p_buf) in vbi_proxy_queue_release_sliced - the daemon aborts, every client loses its stream
#     (queue_capture_step_revoked, seq_revoked_client_keeps_queue; patch /tmp/c18-fixes/G-forward-data-pending-client.diff)
#  K. stop_acquisition frees the queued frames without resetting the cursors of the clients: use after free in vbi_proxyd_send_sliced /
#     vbi_proxy_queue_release_sliced when (a) the daemon is terminated (vbi_proxyd_destroy closes the devices first, then the connections) while a
#     client has a frame pending, (b) the device grants nothing any more in a re-computation while a client has a frame pending
#     (service_step_close_with_cursors, seq_device_closed_with_frames_pending; patch /tmp/c18-fixes/K-stop-acquisition-reset-cursors.diff)
# The obligations that contain the states/runs of G and K are separate (own names) so that every other instance is decided independently of them.

M = ["c19_io.c"]
U = ["src/inout.c", "src/misc.c"]
C18_STUBS = STUBS + ["solver build, allocation model c18_malloc (h_c18.c): malloc() of daemon/proxyd.c hands out typed objects - frame buffers as structs with PROXY_QUEUE as "
                     "prefix (0, 1 or W_MAXLINES lines), the sliced indication as a struct of the size of VBIPROXY_MSG with the layout of a sliced indication and a guard "
                     "line slot behind the size the daemon asked for (cbmc's whole-member bounds check on p_msg->body is fatal for an object of the requested size; untyped "
                     "byte arrays make the line counter inside the message symbolic); the native replay build uses the real malloc under ASan",
                     "solver build: memcpy as a byte loop (lengths are concrete)"]


def obligations(tier, seed):
    RB = ["vbi_proxyd_acq_thread"]
    common = dict(harness="h_c18.c", units=U, models=M, stubs=C18_STUBS, ignore=UB_IGNORE, remove_bodies=RB)
    g = lambda **kw: dict(kw)
    INV = ["queue invariant (asserted again after every step): every queued frame is referenced exactly by the clients whose cursor is at or before it, "
           "cursors point into the queue of their device, no buffer both queued and free, lists acyclic, no cursor on a closed device; <= 1 token owner; "
           "device open <=> capture present"]
    # Every loop of harness, models and daemon has a concrete trip count in these obligations (list walks over a concrete pointer structure); the byte
    # loops over 56/64 byte lines get their own bound, the global bound stays small: a list walk whose end symex cannot see (error paths that close a
    # connection) would otherwise be unrolled to the bound on every path (measured with --unwind 70: 18 GB).  Unwinding assertions guard all of it.
    uw = {"memcmp.0": 66, "_vbi_strlcpy.0": 130, "memcpy.0": 65, "w_frame.0": 65, "w_fill_frames.0": 57, "c19_read.0": 57, "sq_capture.1": 65,
          "c18_malloc.0": 57, "c18_guard_ok.0": 57, "sq_shutdown.0": 30}

    def seq(sched, **kw):
        d = dict(("E%d" % i, e) for i, e in enumerate(sched))
        d.update(kw)
        return d

    SEQ_DEF = dict(W_MAXLINES=1, C19_MAXLINES=1, W_NBUF=3, C19_SENDBYTES=88, C19_SENDLOG=12, C19_NIO=12, C19_NUPD=8, NCL=2, NQ=0)   # <= 12 send() calls per run (asserted)
    SEQ_UW = dict(uw); SEQ_UW.update({"c19_log_send.0": 89})
    SEQ_UNW = 14          # > C19_NIO, C19_SENDLOG
    # SEQ with frames of several lines was built and dropped: the daemon's filter reads `lines[idx].id' through PROXY_QUEUE (declared lines[1]); for idx >= 1 cbmc 6.11
    # gives an unconstrained value on a typed buffer object (the message length becomes symbolic: no symex end in 250 s) and untyped buffers (byte arrays with the
    # list pointers inside) cost > 300 s for 4 events.  Filtering and order of multi-line frames are decided by delivery_step (untyped buffers, one delivery).
    SEQ_ENC = ["vbi_proxyd_forward_data", "vbi_proxy_queue_get_free", "vbi_proxy_queue_force_free", "vbi_proxyd_send_sliced", "vbi_proxy_queue_release_sliced",
               "vbi_proxyd_close", "vbi_proxy_msg_write", "vbi_proxy_msg_handle_write", "vbi_proxyd_take_message(SERVICE_REQ)", "vbi_proxyd_take_service_req",
               "vbi_proxyd_update_services", "vbi_proxy_queue_allocate", "vbi_proxy_stop_acquisition", "vbi_proxyd_channel_update", "vbi_proxyd_destroy"]
    SEQ_BOUNDS = ("<= 8 events, 2..3 clients, 3 (thorough also 2, 1) buffers of 1 line; schedule, service sets (client i subscribed to SVCi, line j of every frame has id "
                  "LIDj) and the device's answers to service re-computations are concrete (grid) - a symbolic schedule or subscription merges pointer states (first "
                  "version: > 20 GB for 4 events); frame payload, time stamps, clock symbolic; sockets take whole messages")
    SEQ_OUT = ("partial writes; channel/token events inside the schedule (C19); CONNECT_REQ inside the schedule (state after CONNECT constructed directly); "
               "frames are filtered with the services granted at DELIVERY time (the daemon's choice when a re-computation changes a grant in between)")
    SEQ_ASS = ["state after CONNECT_REQ constructed directly (services at strictness 0, all granted)"]
    # events: 1 frame, 9 device idle, 2/3/8 client 0/1/2 writable, 4/5 client 0/1 disconnects, 6/7 client 0/1 SERVICE_REQ, 10 daemon terminates
    sched_q = [
        seq((1, 1, 2, 3)),                       # two frames, both read
        seq((1, 2, 1, 3, 2)),                    # interleaved readers
        seq((1, 4, 1, 3)),                       # disconnect with a frame pending, the other goes on
        seq((1, 1, 5, 2, 1, 2)),                 # disconnect of the second client
        seq((1, 1, 1, 1, 2, 3)),                 # overflow: oldest frame lost by both
        seq((1, 2, 1, 2, 1, 2, 1, 3)),           # stalled client 1: client 0 loses nothing, client 1 only the oldest
        seq((1, 7, 3, 1, 3, 2)),                 # SERVICE_REQ of client 1 with a frame pending: own frame dropped, client 0 keeps its frame
        seq((1, 6, 1, 2, 3), SREQ="0x3"),        # SERVICE_REQ of client 0
        seq((1, 1, 2, 3, 8), NCL=3),             # three clients, third gets both lines
        seq((1, 9, 2, 1, 3), SVC1="0x18"),       # client 1 subscribed to a service no line carries: frames with zero lines, still every frame once
        seq((1, 2, 3, 4, 5, 10)),                # everybody has read everything and leaves, then the daemon terminates: device closed once
        seq((1, 3, 1, 1, 1, 3, 2)),              # stalled client 0 (first in the list), client 1 one frame ahead: overflow takes only client 0's oldest frame
    ]
    sched_t = sched_q + [
        seq((1, 1, 3, 2)), seq((1, 3, 1, 2)), seq((2, 1, 1, 2)), seq((1, 1, 1, 2, 1, 3)), seq((1, 2, 1, 1, 1, 1, 3, 2)),
        seq((1, 1, 4, 1, 1, 3)), seq((1, 5, 1, 1, 1, 1, 2)), seq((1, 7, 1, 6, 2, 3, 1, 2)), seq((1, 1, 8, 1, 1, 3, 2, 8), NCL=3),
        seq((1, 4, 1, 8, 3), NCL=3),
        seq((1, 1, 1, 2, 3), W_NBUF=2), seq((1, 2, 1, 1, 2, 3), W_NBUF=2), seq((1, 1, 1, 3, 2), W_NBUF=1),
    ]
    # the device answers a re-computation with "nothing" for some client (norm change, conflicting services of an earlier client)
    revoke_ok_q = [seq((1, 7, 3, 2, 1, 2, 3), REVOKE=2)]    # the requester itself is granted nothing: it gets no more frames, client 0 all
    revoke_ok_t = revoke_ok_q + [seq((1, 2, 3, 7, 1, 3, 2), REVOKE=1), seq((1, 3, 7, 3, 1, 2, 3), REVOKE=2)]
    revoke_g_q = [seq((1, 7, 1, 3, 2), REVOKE=1)]           # client 0 (frame pending) loses its services while client 1 re-requests; next frame; client 1 reads; client 0 reads
    revoke_g_t = revoke_g_q + [seq((1, 1, 7, 1, 3, 2, 1, 2), REVOKE=1), seq((1, 1, 7, 1, 1, 3, 2), REVOKE=1)]
    close_k_q = [seq((1, 10)),                               # a frame pending for both clients, the daemon is told to terminate
                 seq((1, 2, 1, 5, 2), REVOKE=1)]             # client 1 leaves, client 0 (frame pending) is granted nothing any more: device closes; client 0 writable
    close_k_t = close_k_q + [seq((1, 2, 1, 10)), seq((1, 6, 2, 1, 3), REVOKE=3, SREQ="0x3"), seq((1, 4, 3, 1, 3), REVOKE=1), seq((1, 1, 1, 1, 10))]

    # the real main loop (h_main): one entry per iteration, bit 0 frame, bit 1 plain wake-up, bit 4+c client c stalled, bit 8+c client c's peer closed
    def ms(*it, **kw):
        d = dict(("M%d" % i, "0x%x" % e) for i, e in enumerate(it))
        d.update(kw)
        return d
    MAIN_DEF = dict(W_MAXLINES=1, C19_MAXLINES=1, W_NBUF=3, C19_SENDBYTES=88, C19_SENDLOG=12, C19_NIO=12, C19_NUPD=8, NCL=2, NQ=0)
    MAIN_UW = dict(uw); MAIN_UW.update({"c19_log_send.0": 89, "ms_plan_iteration.3": 65, "h_main.4": 30})
    common2 = dict((k, v) for k, v in common.items() if k != "stubs")
    main_q = [
        ms(0x1, 0x1, 0x1),                                   # every frame goes out in the iteration it is captured, to both
        ms(0x21, 0x21, 0x21, 0x21, 0x21, 0x2),               # client 1 stalled over five frames: client 0 gets all five at once, client 1 afterwards the one in flight and the three newest
        ms(0x11, 0x11, 0x2, 0x1),                            # client 0 (first in the list) stalled over two frames, then catches up
        ms(0x1, 0x102, 0x1, 0x202, 0x2),                     # peer of client 0 closes: client 1 goes on; then client 1 closes: device closed
        ms(0x21, 0x21, 0x1, 0x2),                            # client 1 stalled, becomes writable in an iteration that also captures
    ]
    main_t = main_q + [ms(0x31, 0x31, 0x31, 0x31, 0x2), ms(0x11, 0x21, 0x11, 0x21, 0x2), ms(0x1, 0x202, 0x1, 0x102), ms(0x21, 0x21, 0x21, 0x21, 0x11, 0x2)]

    SEQ_DESC = ("SEQ against a shadow model: clients connected and subscribed (client i to SVCi), empty queue, events in the order given by the grid (1 frame captured with "
                "symbolic payload and time stamp, 9 device idle, 2/3/8 client 0/1/2 writable, 4/5 client 0/1 disconnects, 6/7 client 0/1 sends SERVICE_REQ, 10 the daemon "
                "is told to terminate): the messages handed to send() for client i are - after a pending reply - in capture order, exactly once, the frames captured while "
                "it was subscribed, each filtered to its granted services, with the capture time stamp; nothing else is sent; when the daemon runs out of buffers only the "
                "oldest frame is lost and only by the clients that had not read it (a stalled client costs the others nothing); a client changing its services loses only "
                "its own queued frames; queue invariant and lock discipline after every event")

    obs = [
        Ob("queue_capture_step", func="h_fwd", unwind=6, unwindset=uw,
           desc="queue INV-STEP, capture: vbi_proxyd_forward_data from every well-formed queue state (3 buffers, NQ queued, cursors of <= 3 clients symbolic), the device "
                "delivering an arbitrary frame (0..max lines, symbolic time stamp), a timeout or an error: the frame is queued exactly once at the tail, referenced by "
                "exactly the clients that will walk onto it (FORWARD and services granted), with the captured line count, lines and time stamp; "
                "clients with nothing pending get it as next frame, all other cursors and the order of older frames are unchanged; without a free buffer only the oldest "
                "frame is dropped and only its readers move on; queue invariant kept, no mutex left locked",
           encodes=["vbi_proxyd_forward_data", "vbi_proxy_queue_get_free", "vbi_proxy_queue_force_free", "vbi_proxy_queue_release_sliced", "vbi_proxy_queue_add_tail",
                    "vbi_proxy_queue_add_free", "vbi_capture_read_sliced (inout.c)"],
           bounds="one capture event; 3 buffers of W_MAXLINES lines (quick: 1), NQ = 0..3 queued; 3 clients; last client on the same or the other device",
           assumes=INV + ["GSTATE=0: every client with frames pending is still granted a service (the other states: queue_capture_step_revoked)"],
           outside="raw (VBI_SLICED_VBI_*) forwarding; acquisition thread; a read that yields no frame after the oldest frame was already dropped for it is not judged",
           defines=dict(W_MAXLINES=1, C19_MAXLINES=1, W_NBUF=3, GSTATE=0),
           grid=[g(NCL=3, NQ=q, BDEV=b) for q in (0, 1, 2) for b in (0, 1)] + [g(NCL=3, NQ=1, BDEV=0, W_MAXLINES=2, C19_MAXLINES=2, C18_TYPED_QN=1)],
           quick_grid=[g(NCL=3, NQ=0, BDEV=0), g(NCL=3, NQ=2, BDEV=0), g(NCL=3, NQ=1, BDEV=1), g(NCL=3, NQ=1, BDEV=0, W_MAXLINES=2, C19_MAXLINES=2, C18_TYPED_QN=1)],
           reach=["end", "queued", "idle"], timeout=300, mem_gb=2, vin_size=4096, **common),
        Ob("queue_overflow_step", func="h_fwd", unwind=6, unwindset=uw,
           desc="queue INV-STEP, capture without a free buffer (all 3 buffers queued: some client is stalled): as queue_capture_step; exactly the oldest frame is given up, "
                "exactly the clients whose cursor was on it move on by one frame, everybody else's cursor and the order of the other frames are unchanged, the new frame "
                "is appended - a stalled client costs the others nothing",
           encodes=["vbi_proxyd_forward_data", "vbi_proxy_queue_force_free", "vbi_proxy_queue_release_sliced", "vbi_proxy_queue_get_free", "vbi_proxy_queue_add_tail"],
           bounds="one capture event; 3 buffers, all queued; 3 clients; last client on the same or the other device", assumes=INV + ["GSTATE=0 (as queue_capture_step)"],
           outside="as queue_capture_step",
           defines=dict(W_MAXLINES=1, C19_MAXLINES=1, W_NBUF=3, GSTATE=0, NQ=3, NCL=3),
           grid=[g(BDEV=0), g(BDEV=1), g(BDEV=0, W_MAXLINES=2, C19_MAXLINES=2, C18_TYPED_QN=1)], quick_grid=[g(BDEV=0), g(BDEV=1)],
           reach=["end", "queued", "forced"], timeout=300, mem_gb=2, vin_size=4096, **common),
        Ob("queue_capture_step_revoked", func="h_fwd", unwind=6, unwindset=uw,
           desc="queue INV-STEP, capture, states of defect G: as queue_capture_step, but at least one client has frames pending and no service granted any more (the "
                "device revoked them in a re-computation somebody else caused; reached by seq_revoked_client_keeps_queue): its cursor walks onto the new frame, so the "
                "frame must count it (else the frame is freed, or the queue head assertion of vbi_proxy_queue_release_sliced aborts the daemon, while it still points there)",
           encodes=["vbi_proxyd_forward_data", "vbi_proxy_queue_get_free", "vbi_proxy_queue_force_free", "vbi_proxy_queue_release_sliced"],
           bounds="one capture event; 3 one-line buffers, NQ = 1..3 queued; 3 clients", assumes=INV + ["GSTATE=1: at least one client FORWARD, cursor set, all_services == 0"],
           outside="as queue_capture_step",
           defines=dict(W_MAXLINES=1, C19_MAXLINES=1, W_NBUF=3, GSTATE=1),
           grid=[g(NCL=3, NQ=q, BDEV=0) for q in (1, 2, 3)], quick_grid=[g(NCL=3, NQ=1, BDEV=0), g(NCL=3, NQ=3, BDEV=0)],
           reach=["end", "queued"], timeout=300, mem_gb=2, vin_size=4096, **common),
        Ob("delivery_step", func="h_deliver", unwind=6, unwindset=dict(uw, **{"c19_log_send.0": 17, "c19_log_send.1": 5}),
           desc="queue INV-STEP, delivery: vbi_proxyd_send_sliced + vbi_proxy_queue_release_sliced (paired as in vbi_proxyd_handle_client_sockets) for a client with a "
                "frame pending, from a queue of NQ frames with symbolic contents, the client's services symbolic: the message is exactly the frame at THAT client's cursor "
                "- header length/type, capture time stamp, number of lines, and the lines whose id intersects the granted services, all of them, in order, byte for byte - "
                "nothing is written behind the allocated message, the queued frame is not modified, the cursor moves on by exactly one frame, the frame loses exactly this "
                "reference (freed iff last reader, else it keeps its place), no other client is touched, queue invariant kept",
           encodes=["vbi_proxyd_send_sliced", "vbi_proxy_queue_release_sliced", "vbi_proxy_msg_write", "vbi_proxy_msg_handle_write"],
           bounds="one delivery; frames of W_MAXLINES lines of which LC carry data (grid); 2 clients with concrete cursors CUR0/CUR1 (grid); socket blocked (message inspected in the write buffer)",
           assumes=INV + ["the client's line range fixed at subscription (vbi_count) covers the frame (the daemon truncates to it, protecting the client's buffers)"],
           outside="raw services; frames longer than 3 lines (the filter loop is uniform in the line index: argument, not solver)",
           defines=dict(W_NBUF=3, NCL=2, C19_NIO=4, C18_MSG_BYTES=1),
           grid=[g(W_MAXLINES=2, C19_MAXLINES=2, LC=2, NQ=2, ACT=0, CUR0=0, CUR1=0), g(W_MAXLINES=2, C19_MAXLINES=2, LC=2, NQ=2, ACT=1, CUR0=0, CUR1=1),

                 g(W_MAXLINES=3, C19_MAXLINES=3, LC=3, NQ=2, ACT=0, CUR0=1, CUR1=0), g(W_MAXLINES=3, C19_MAXLINES=3, LC=3, NQ=1, ACT=1, CUR0=9, CUR1=0),
                 g(W_MAXLINES=3, C19_MAXLINES=3, LC=2, NQ=3, ACT=0, CUR0=0, CUR1=2)],
           quick_grid=[g(W_MAXLINES=2, C19_MAXLINES=2, LC=2, NQ=2, ACT=0, CUR0=0, CUR1=0), g(W_MAXLINES=2, C19_MAXLINES=2, LC=2, NQ=2, ACT=1, CUR0=0, CUR1=1),
                       g(W_MAXLINES=3, C19_MAXLINES=3, LC=3, NQ=1, ACT=1, CUR0=9, CUR1=0)],
           reach=["end", "filtered", "all"], timeout=300, mem_gb=2, vin_size=4096, **common),
        Ob("delivery_step_short_frame", func="h_deliver", unwind=6, unwindset=dict(uw, **{"c19_log_send.0": 17, "c19_log_send.1": 5}),
           desc="queue INV-STEP, delivery of a frame with one line or none (as delivery_step): a frame without lines is still delivered, once, with its time stamp",
           encodes=["vbi_proxyd_send_sliced", "vbi_proxy_queue_release_sliced", "vbi_proxy_msg_write", "vbi_proxy_msg_handle_write"],
           bounds="one delivery; 2-line buffers, LC = 0..1", assumes=INV, outside="as delivery_step",
           defines=dict(W_NBUF=3, NCL=2, C19_NIO=4, C18_MSG_BYTES=1, W_MAXLINES=2, C19_MAXLINES=2, NQ=1, ACT=0, CUR0=0), tier="thorough",
           grid=[g(LC=1, CUR1=9), g(LC=0, CUR1=0)],
           reach=["end", "all"], timeout=300, mem_gb=2, vin_size=4096, **common),
        Ob("service_step", func="h_svc", unwind=6, unwindset=uw,
           desc="service INV-STEP: vbi_proxyd_take_service_req (the body of CONNECT_REQ and SERVICE_REQ) with symbolic services at strictness STRICTV, from every invariant "
                "state (other client symbolic; device open with NQ frames queued, or closed and openable), the device granting an arbitrary subset on every call: the request "
                "moves to the given level only and is narrowed to the grant; the device is asked for exactly the union of the requests of its clients; every client is granted "
                "a subset of its request, the requester exactly what stays recorded; the device's service set is the union of the grants; it is opened at most once, open "
                "afterwards iff something is granted and closed otherwise; while it stays open nobody else's cursor moves; queue invariant kept",
           encodes=["vbi_proxyd_take_service_req", "vbi_proxyd_update_services", "vbi_proxy_start_acquisition", "vbi_proxy_stop_acquisition", "vbi_proxy_queue_allocate",
                    "vbi_proxyd_update_scanning", "vbi_capture_update_services / _parameters / _fd (inout.c)"],
           bounds="one request; 2 clients (acting client first or last); -buffers 1, every client asks for 1 buffer; 2 one-line buffers; strictness on the grid; "
                  "closed device: first open (buffers of the previous line count 0) or re-open (PREVLINES=1)",
           assumes=INV + ["KSTATE=0: runs that close the device while another client has frames pending are in service_step_close_with_cursors"],
           outside="acquisition-thread devices; raw services (buffers with raw sub-buffer); more than 2 clients",
           defines=dict(W_MAXLINES=1, C19_MAXLINES=1, W_NBUF=2, NCL=2, KSTATE=0),
           grid=[g(ACT=a, DEVOPEN=1, NQ=q, STRICTV=s, BDEV=0) for (a, q, s) in ((0, 1, 0), (1, 1, 2), (1, 2, 1), (0, 2, 0))] +
                [g(ACT=a, DEVOPEN=0, NQ=0, STRICTV=s, BDEV=0, DEVCASE=0, PREVLINES=p) for (a, s, p) in ((0, 0, 0), (1, 1, 1), (1, 2, 0), (0, -1, 1))] +
                [],
           quick_grid=[g(ACT=0, DEVOPEN=1, NQ=1, STRICTV=0, BDEV=0), g(ACT=1, DEVOPEN=1, NQ=1, STRICTV=2, BDEV=0),
                       g(ACT=0, DEVOPEN=0, NQ=0, STRICTV=0, BDEV=0, DEVCASE=0, PREVLINES=0), g(ACT=1, DEVOPEN=0, NQ=0, STRICTV=1, BDEV=0, DEVCASE=0, PREVLINES=1)],
           reach=["end", "open"], timeout=400, mem_gb=2, vin_size=4096, **common),
        Ob("service_step_empty_queue", func="h_svc", unwind=6, unwindset=uw,
           desc="service INV-STEP from an open device with nothing queued: as service_step; here the device is also closed when nothing is granted to anybody any more "
                "(capture object deleted once, buffers freed, no file descriptor left in the select set)",
           encodes=["vbi_proxyd_take_service_req", "vbi_proxyd_update_services", "vbi_proxy_stop_acquisition", "vbi_proxy_queue_allocate", "vbi_proxy_queue_free_all"],
           bounds="one request; 2 clients; device open, no frame queued", assumes=INV, outside="as service_step",
           defines=dict(W_MAXLINES=1, C19_MAXLINES=1, W_NBUF=2, NCL=2, DEVOPEN=1, NQ=0),
           grid=[g(ACT=0, STRICTV=-1, BDEV=0), g(ACT=1, STRICTV=0, BDEV=0), g(ACT=1, STRICTV=2, BDEV=0), g(ACT=0, STRICTV=0, BDEV=1)], quick_grid=[g(ACT=0, STRICTV=-1, BDEV=0)],
           reach=["end", "open", "closed"], timeout=300, mem_gb=2, vin_size=4096, **common),
        Ob("service_step_noopen", func="h_svc", unwind=6, unwindset=uw,
           desc="service INV-STEP, the closed device cannot be opened (vbi_capture_v4l2_new and vbi_capture_v4l_new fail): the request is refused, the request table "
                "of the requester keeps what was asked at the given level, nobody is granted anything, no device handle is left behind",
           encodes=["vbi_proxyd_take_service_req", "vbi_proxyd_update_services", "vbi_proxy_start_acquisition", "vbi_proxy_stop_acquisition"],
           bounds="one request; 2 clients; device closed, DEVCASE=3", assumes=INV, outside="as service_step",
           defines=dict(W_MAXLINES=1, C19_MAXLINES=1, W_NBUF=2, NCL=2, DEVOPEN=0, NQ=0, BDEV=0, DEVCASE=3),
           grid=[g(ACT=0, STRICTV=2), g(ACT=1, STRICTV=-1), g(ACT=1, STRICTV=1)], quick_grid=[g(ACT=1, STRICTV=1)],
           reach=["end", "closed"], timeout=300, mem_gb=2, vin_size=4096, **common),
        Ob("service_step_close_with_cursors", func="h_svc", unwind=6, unwindset=uw,
           desc="service INV-STEP, runs of defect K: as service_step, restricted to the runs in which the device is closed (nothing granted to anybody any more) while the "
                "other client has frames pending: when the device closes its buffers are freed, so no cursor may survive",
           encodes=["vbi_proxyd_take_service_req", "vbi_proxyd_update_services", "vbi_proxy_stop_acquisition", "vbi_proxy_queue_free_all"],
           bounds="one request; 2 clients; device open, NQ = 1..2 frames queued", assumes=INV + ["KSTATE=1"], outside="as service_step",
           defines=dict(W_MAXLINES=1, C19_MAXLINES=1, W_NBUF=2, NCL=2, KSTATE=1, DEVOPEN=1, BDEV=0),
           grid=[g(ACT=0, NQ=1, STRICTV=0), g(ACT=1, NQ=2, STRICTV=1), g(ACT=1, NQ=1, STRICTV=-1)], quick_grid=[g(ACT=0, NQ=1, STRICTV=0)],
           reach=["end", "closed", "closed_with_cursor"], timeout=300, mem_gb=2, vin_size=4096, **common),
        Ob("seq_schedule", func="h_seq", unwind=SEQ_UNW, unwindset=SEQ_UW, desc=SEQ_DESC,
           encodes=SEQ_ENC, bounds=SEQ_BOUNDS, outside=SEQ_OUT, assumes=SEQ_ASS,
           defines=SEQ_DEF, grid=sched_t, quick_grid=sched_q,
           reach=["end", "delivered"], timeout=300, mem_gb=2, vin_size=4096, **common),
        Ob("seq_revoke", func="h_seq", unwind=SEQ_UNW, unwindset=SEQ_UW,
           desc="SEQ, the device revokes services: as seq_schedule, but the k-th service re-computation call of the run (bit k of REVOKE) is answered with 'nothing' - what a "
                "norm change or a conflicting request of a client earlier in the list does to vbi_capture_update_services.  Schedules in which the client that loses its "
                "services has nothing pending: it gets no more frames, every other client gets every frame once",
           encodes=SEQ_ENC, bounds=SEQ_BOUNDS, outside=SEQ_OUT, assumes=SEQ_ASS,
           defines=SEQ_DEF, grid=revoke_ok_t, quick_grid=revoke_ok_q,
           reach=["end", "delivered", "reply"], timeout=300, mem_gb=2, vin_size=4096, **common),
        Ob("seq_revoked_client_keeps_queue", func="h_seq", unwind=SEQ_UNW, unwindset=SEQ_UW,
           desc="SEQ, defect G reached by daemon events: a frame is pending for client 0; client 1 sends SERVICE_REQ, in the re-computation the device grants client 0 "
                "nothing any more; the next frame is captured; both clients read: client 0 still gets its pending frame and the frames captured until its queue is drained "
                "(without lines), client 1 gets every frame once, the daemon does not abort",
           encodes=SEQ_ENC, bounds=SEQ_BOUNDS, outside=SEQ_OUT, assumes=SEQ_ASS,
           defines=SEQ_DEF, grid=revoke_g_t, quick_grid=revoke_g_q,
           reach=["end", "delivered", "reply"], timeout=300, mem_gb=2, vin_size=4096, **common),
        Ob("seq_device_closed_with_frames_pending", func="h_seq", unwind=SEQ_UNW, unwindset=SEQ_UW,
           desc="SEQ, defect K reached by daemon events: the device is closed while a client still has a frame pending - because the daemon is told to terminate "
                "(event 10: vbi_proxyd_destroy closes the devices, then the connections), or because the last client that is granted anything leaves / the device grants "
                "nothing any more: the frames are freed, so no client keeps a cursor (no use after free in vbi_proxyd_close / vbi_proxyd_send_sliced), nothing more is sent",
           encodes=SEQ_ENC, bounds=SEQ_BOUNDS, outside=SEQ_OUT, assumes=SEQ_ASS,
           defines=SEQ_DEF, grid=close_k_t, quick_grid=close_k_q,
           reach=["end"], timeout=300, mem_gb=2, vin_size=4096, **common),
        Ob("main_loop_schedule", func="h_main", unwind=18, unwindset=MAIN_UW,
           desc="SEQ through the REAL main loop: vbi_proxyd_main_loop runs against a scripted select() - vbi_proxyd_get_fd_set, the loop body, vbi_proxyd_forward_data "
                "and the whole of vbi_proxyd_handle_client_sockets are the daemon's code, nothing replicated.  One loop iteration per schedule entry (bit 0 the device has "
                "a frame, bit 1 plain wake-up, bit 4+c client c stalled: socket not writable and send() fails with EAGAIN, bit 8+c client c's peer closed).  After every "
                "iteration: the messages accepted by send() are, client by client in list order, the message left in the write buffer by a stalled socket and then the "
                "pending frames in capture order, each once, filtered, with the capture time stamp; refused attempts only on stalled sockets; a stalled client holds one "
                "message and its queued frames, the others get every frame in the iteration it is captured; only the oldest frame is lost when the buffers run out; a "
                "closed connection is unlinked and the device stays open iff a remaining client is granted a service; the select set watches the open device and every "
                "connection (for writing iff something is pending); queue invariant, lock discipline",
           encodes=["vbi_proxyd_main_loop", "vbi_proxyd_get_fd_set", "vbi_proxyd_handle_client_sockets", "vbi_proxyd_forward_data", "vbi_proxyd_send_sliced",
                    "vbi_proxy_queue_release_sliced", "vbi_proxy_queue_force_free", "vbi_proxy_msg_handle_read", "vbi_proxy_msg_handle_write", "vbi_proxyd_close",
                    "vbi_proxyd_update_services", "vbi_proxyd_channel_update"],
           bounds="<= 6 loop iterations, 2 clients (FORWARD, client i subscribed to SVCi), 3 one-line buffers; schedule concrete (grid), frame payload, time stamps, clock symbolic; "
                  "sockets take a whole message or nothing", outside=SEQ_OUT + "; new connections and client messages inside the loop (C19 event_loop, seq_schedule)",
           assumes=SEQ_ASS, stubs=C18_STUBS + ["select(): defined in the harness (scripted readiness; ends the loop by setting proxy.should_exit and failing with EINTR, as the "
                                                "signal handler does)"],
           defines=MAIN_DEF, grid=main_t, quick_grid=main_q,
           reach=["end", "delivered"], timeout=300, mem_gb=2, vin_size=4096, **common2),
        Ob("main_loop_shutdown_with_frames_pending", func="h_main", unwind=18, unwindset=MAIN_UW,
           desc="SEQ through the real main loop, defect K: client 1 is stalled while two frames are captured (one message in its write buffer, one frame queued), the daemon is "
                "told to terminate: main() leaves the loop and calls vbi_proxyd_destroy, which closes the device (freeing the queue) and then the connections - "
                "vbi_proxyd_close must not walk the freed queue",
           encodes=["vbi_proxyd_main_loop", "vbi_proxyd_handle_client_sockets", "vbi_proxyd_destroy", "vbi_proxy_stop_acquisition", "vbi_proxyd_close"],
           bounds="2..3 loop iterations, 2 clients, 3 one-line buffers", outside=SEQ_OUT, assumes=SEQ_ASS, stubs=C18_STUBS + ["select(): defined in the harness"],
           defines=dict(MAIN_DEF, MDESTROY=1), grid=[ms(0x21, 0x21), ms(0x11, 0x11, 0x11)], quick_grid=[ms(0x21, 0x21)],
           reach=["end", "stalled"], timeout=300, mem_gb=2, vin_size=4096, **common2),
    ]
    return obs
