import os
from vlib.runner import Ob
from vlib.props.C19 import PROPOSED_PATCH as C19_PATCH, STUBS, UB_IGNORE

# proposed patches (C18_PROPOSED_PATCH=1 or C19_PROPOSED_PATCH=1: scratch copies only)
PROPOSED_PATCH = {k: list(v) for k, v in C19_PATCH.items()}
PROPOSED_PATCH["daemon/proxyd.c"] = PROPOSED_PATCH["daemon/proxyd.c"] + [
    # F. a frame may fill every line of the buffer
    (r"assert\(p_buf->line_count < p_buf->max_lines\);", "assert(p_buf->line_count <= p_buf->max_lines);"),
    # I. force-free drops only the oldest frame: the head must be sampled before the loop (releasing it makes the next frame the head,
    #    and clients later in the list that are waiting for THAT frame would lose it too)
    (r"for \(req = proxy\.p_clnts; req != NULL; req = req->p_next\)\n(\s*)\{\n(\s*)if \(req->p_sliced == p_proxy_dev->p_sliced\)",
     "PROXY_QUEUE * p_head = p_proxy_dev->p_sliced;\n\\1for (req = proxy.p_clnts; req != NULL; req = req->p_next)\n\\1{\n\\2if (req->p_sliced == p_head)"),
    # G. reference accounting follows the cursors: a client with frames still pending references the new frame too,
    #    even if a service re-computation (norm change, other client's request) left it without granted services
    (r"\(req->state == REQ_STATE_FORWARD\) &&\n(\s*)\(req->all_services != 0\) \)",
     "(req->state == REQ_STATE_FORWARD) &&\n\\1((req->all_services != 0) || (req->p_sliced != NULL)) )"),
]

M = ["c19_io.c"]
U = ["src/inout.c", "src/misc.c"]


def obligations(tier, seed):
    patch = PROPOSED_PATCH if (os.environ.get("C18_PROPOSED_PATCH") == "1" or os.environ.get("C19_PROPOSED_PATCH") == "1") else None
    RB = ["vbi_proxyd_acq_thread"]
    # the sliced indication is allocated with its actual size (24 + 64 n bytes) and filled through a VBIPROXY_MSG pointer (992 byte type):
    # CBMC flags the dereference of the oversized type; the bytes actually accessed are checked by the array-bounds / memcpy checks and
    # by the send() model, which reads all n bytes it is given
    IGN = UB_IGNORE + [r"vbi_proxyd_send_sliced:dereference failure: pointer outside object bounds in p_msg->body"]
    common = dict(harness="h_c18.c", units=U, models=M, stubs=STUBS, patch=patch, ignore=IGN, remove_bodies=RB)
    g = lambda **kw: dict(kw)
    INV = ["queue invariant (asserted again after every step): every queued frame is referenced exactly by the clients whose cursor is at or before it, "
           "cursors point into the queue of their device, no buffer both queued and free, lists acyclic; <= 1 token owner; device open <=> capture present"]
    obs = [
        Ob("queue_capture_step", func="h_fwd", unwind=6, unwindset={"memcmp.0": 66},
           desc="queue INV-STEP, capture: vbi_proxyd_forward_data from every well-formed queue state (3 buffers, NQ queued, cursors of <= 3 clients symbolic), the device "
                "delivering an arbitrary frame (0..max lines, symbolic time stamp), a timeout or an error: the frame is queued exactly once at the tail, referenced by "
                "exactly the subscribed clients (FORWARD, services granted), with the captured line count and time stamp; clients with nothing pending get it as next frame, "
                "all other cursors and the order of older frames are unchanged; without a free buffer only the oldest frame is dropped and only its readers move on; "
                "queue invariant kept, no mutex left locked",
           encodes=["vbi_proxyd_forward_data", "vbi_proxy_queue_get_free", "vbi_proxy_queue_force_free", "vbi_proxy_queue_release_sliced", "vbi_proxy_queue_add_tail",
                    "vbi_proxy_queue_add_free", "vbi_capture_read_sliced (inout.c)"],
           bounds="one capture event; 3 one-line buffers (exact-size objects), NQ = 0..3 queued; 2..3 clients; last client on the same or the other device", assumes=INV,
           outside="raw (VBI_SLICED_VBI_*) forwarding; buffers with more than one line (contents are copied by the device layer, not by this step); acquisition thread",
           defines=dict(W_MAXLINES=1, C19_MAXLINES=1, W_NBUF=3),
           grid=[g(NCL=3, NQ=q, BDEV=b) for q in (0, 1, 2, 3) for b in (0, 1)], quick_grid=[g(NCL=3, NQ=0, BDEV=0), g(NCL=3, NQ=2, BDEV=0), g(NCL=3, NQ=3, BDEV=1)],
           reach=["end", "queued"], timeout=300, mem_gb=3, vin_size=4096, **common),
        # queue_delivery_step (h_send in the harness: one vbi_proxyd_send_sliced + release from an arbitrary queue state, 2-line frames) is NOT scheduled:
        # measured 3 encodings, each > 7 GB in propositional reduction without verdict (157..200 s to the memory cap).  The delivery step is covered,
        # for one-line frames, by seq_schedule below.
        Ob("seq_schedule", func="h_seq", unwind=6, unwindset={"memcmp.0": 66, "c19_log_send.0": 90, "c19_log_send.1": 6},
           desc="SEQ against a shadow model: 2 subscribed clients, empty queue, 4 events in the order given by the grid (F = frame captured with <= 1 symbolic line and "
                "symbolic time stamp, W0/W1 = client idle and writable, D0/D1 = client disconnects): the messages handed to send() for client i are, in capture order, "
                "exactly once, the frames captured while it was connected, each filtered to its granted services, with the capture time stamp; when the daemon runs out of "
                "buffers only the oldest frame is lost and only by the clients that had not read it; queue invariant after every event",
           encodes=["vbi_proxyd_forward_data", "vbi_proxy_queue_get_free", "vbi_proxy_queue_force_free", "vbi_proxyd_send_sliced", "vbi_proxy_queue_release_sliced",
                    "vbi_proxyd_close", "vbi_proxy_msg_write", "vbi_proxy_msg_handle_write"],
           bounds="k = 4 events, 2 clients, 3 one-line buffers (exact-size objects; with 2-line buffers one instance needed > 27 GB); schedules enumerated on the grid (not symbolic: a symbolic schedule merges pointer states and stalls symex), "
                  "all frame data / services symbolic; sockets take whole messages",
           outside="SERVICE_REQ inside the schedule (step contract in C19 msg_take); partial writes; 3 clients",
           defines=dict(W_MAXLINES=1, C19_MAXLINES=1, W_NBUF=3, C19_SENDBYTES=88, NCL=2, NQ=0, C19_NIO=4),
           grid=[g(E0=a, E1=b, E2=c, E3=d) for (a, b, c, d) in ((1, 1, 2, 3), (1, 2, 1, 2), (1, 4, 1, 3), (1, 1, 3, 2), (1, 3, 1, 2), (1, 1, 5, 2), (2, 1, 1, 2))],
           quick_grid=[g(E0=1, E1=1, E2=2, E3=3), g(E0=1, E1=4, E2=1, E3=3)],
           reach=["end", "delivered"], timeout=900, mem_gb=6, vin_size=4096, **common),
        Ob("seq_overflow", func="h_seq", unwind=6, unwindset={"memcmp.0": 66, "c19_log_send.0": 90, "c19_log_send.1": 6},
           desc="SEQ, stalled client: 2 buffers, three frames captured while client 1 never reads, client 0 reads after each pair: as seq_schedule (a stalled client costs "
                "the others nothing but the frames the daemon has no buffer for)",
           encodes=["vbi_proxyd_forward_data", "vbi_proxy_queue_force_free", "vbi_proxyd_send_sliced", "vbi_proxy_queue_release_sliced"],
           bounds="as seq_schedule with 2 buffers", defines=dict(W_MAXLINES=1, C19_MAXLINES=1, W_NBUF=2, C19_SENDBYTES=88, NCL=2, NQ=0, C19_NIO=4),
           grid=[g(E0=1, E1=1, E2=1, E3=2), g(E0=1, E1=2, E2=1, E3=1)], quick_grid=[g(E0=1, E1=1, E2=1, E3=2)],
           reach=["end", "delivered"], timeout=900, mem_gb=6, vin_size=4096, tier="thorough", **common),
    ]
    return obs
