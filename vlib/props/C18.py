import os
from vlib.runner import Ob
from vlib.props.C19 import STUBS, UB_IGNORE

# Defects of daemon/proxyd.c found by these obligations (F, I: repaired in /repo by 250f3c7 / 5559cc9; G, K: proposed fixes in the report):
#  F. forward_data asserted line_count < max_lines: a frame with data on every scanned line aborted the daemon           (queue_capture_step)
#  I. queue_force_free compared against the moving queue head: an overflow dropped more than the oldest frame              (queue_capture_step, seq_overflow)
#  G. forward_data counts a client for a new frame only if all_services != 0, although a client whose cursor is still in
#     the queue walks onto that frame (its services were revoked by a re-computation another client caused)                (queue_capture_step, seq_revoke)
#  K. stop_acquisition frees the queued frames without resetting the cursors of the clients                                (service_step, seq_revoke)

M = ["c19_io.c"]
U = ["src/inout.c", "src/misc.c"]
C18_STUBS = STUBS + ["solver build: the sliced indication buffer is allocated with the size of its TYPE (VBIPROXY_MSG) + guard bytes behind the size the daemon "
                     "asked for (cbmc's whole-member bounds check on p_msg->body is fatal otherwise); the native replay build uses the real malloc under ASan"]


def obligations(tier, seed):
    RB = ["vbi_proxyd_acq_thread"]
    common = dict(harness="h_c18.c", units=U, models=M, stubs=C18_STUBS, ignore=UB_IGNORE, remove_bodies=RB)
    g = lambda **kw: dict(kw)
    INV = ["queue invariant (asserted again after every step): every queued frame is referenced exactly by the clients whose cursor is at or before it, "
           "cursors point into the queue of their device, no buffer both queued and free, lists acyclic, no cursor on a closed device; <= 1 token owner; "
           "device open <=> capture present"]
    uw = {"memcmp.0": 66, "_vbi_strlcpy.0": 130}

    def seq(sched, **kw):
        d = dict(("E%d" % i, e) for i, e in enumerate(sched))
        d.update(kw)
        return d

    SEQ_DEF = dict(W_MAXLINES=1, C19_MAXLINES=1, W_NBUF=3, C19_SENDBYTES=88, C19_SENDLOG=8, C19_NIO=8, C19_NUPD=8, NCL=2, NQ=0)
    SEQ_UW = dict(uw); SEQ_UW.update({"c19_log_send.0": 89, "c19_log_send.1": 9})
    SEQ_ENC = ["vbi_proxyd_forward_data", "vbi_proxy_queue_get_free", "vbi_proxy_queue_force_free", "vbi_proxyd_send_sliced", "vbi_proxy_queue_release_sliced",
               "vbi_proxyd_close", "vbi_proxy_msg_write", "vbi_proxy_msg_handle_write", "vbi_proxyd_take_message(SERVICE_REQ)", "vbi_proxyd_take_service_req",
               "vbi_proxyd_update_services", "vbi_proxy_queue_allocate", "vbi_proxy_stop_acquisition", "vbi_proxyd_channel_update"]
    SEQ_BOUNDS = ("<= 8 events, 2..3 clients, 3 two-line buffers; schedule, service sets (client i subscribed to SVCi, line j of every frame has id LIDj) and the device's "
                  "answers to service re-computations are concrete (grid) - a symbolic schedule or subscription merges pointer states (first version: > 20 GB for "
                  "4 events); frame payload, time stamps, clock symbolic; sockets take whole messages")
    SEQ_OUT = ("partial writes; channel/token events inside the schedule (C19); CONNECT_REQ inside the schedule (state after CONNECT constructed directly); "
               "frames are filtered with the services granted at DELIVERY time (the daemon's choice when a re-computation changes a grant in between)")
    # schedules: 1 frame, 9 device idle, 2/3/8 client 0/1/2 writable, 4/5 client 0/1 disconnects, 6/7 client 0/1 SERVICE_REQ
    sched_q = [
        seq((1, 1, 2, 3)),                       # two frames, both read
        seq((1, 2, 1, 3, 2)),                    # interleaved readers
        seq((1, 4, 1, 3)),                       # disconnect with a frame pending, the other goes on
        seq((1, 1, 5, 2, 1, 2)),                 # disconnect of the second client
        seq((1, 1, 1, 1, 2, 3)),                 # overflow: oldest frame lost by both
        seq((1, 2, 1, 2, 1, 2, 1, 3)),           # stalled client 1: client 0 loses nothing, client 1 only the oldest
        seq((1, 7, 3, 1, 3, 2)),                 # SERVICE_REQ of client 1 with a frame pending: own frame dropped, client 0 keeps its frame
        seq((1, 6, 1, 2, 3), SREQ="0x3"),        # SERVICE_REQ of client 0
        seq((1, 1, 2, 3, 8), NCL=3),             # three clients, third gets both lines
        seq((1, 9, 2, 1, 3), SVC1="0x18"),       # client 1 subscribed to a service no line carries: frames with zero lines, still every frame once
    ]
    sched_t = sched_q + [
        seq((1, 1, 3, 2)), seq((1, 3, 1, 2)), seq((2, 1, 1, 2)), seq((1, 1, 1, 2, 1, 3)), seq((1, 2, 1, 1, 1, 1, 3, 2)),
        seq((1, 1, 4, 1, 1, 3)), seq((1, 5, 1, 1, 1, 1, 2)), seq((1, 7, 1, 6, 2, 3, 1, 2)), seq((1, 1, 8, 1, 1, 3, 2, 8), NCL=3),
        seq((1, 4, 1, 8, 3), NCL=3), seq((1, 1, 2, 3), W_MAXLINES=3, C19_MAXLINES=3, C19_SENDBYTES=216),
        seq((1, 1, 1, 2, 3), W_NBUF=2), seq((1, 2, 1, 1, 2, 3), W_NBUF=2), seq((1, 1, 1, 3, 2), W_NBUF=1),
    ]
    # the device answers a re-computation with "nothing" for some client (norm change, conflicting services of an earlier client)
    revoke_q = [
        seq((1, 7, 1, 3, 2), REVOKE=1),          # G: client 0 (frame pending) loses its services while client 1 re-requests; next frame; client 1 reads; client 0 reads
        seq((1, 2, 1, 5, 2), REVOKE=1),          # K: client 1 leaves, client 0 (frame pending) is granted nothing any more: device closes; client 0 writable
        seq((1, 7, 3, 2, 1, 2, 3), REVOKE=2),    # the requester itself is granted nothing: it gets no more frames, client 0 all
    ]
    revoke_t = revoke_q + [seq((1, 1, 7, 1, 3, 2, 1, 2), REVOKE=1), seq((1, 6, 2, 1, 3), REVOKE=3, SREQ="0x3"), seq((1, 4, 3, 1, 3), REVOKE=1),
                           seq((1, 1, 7, 1, 1, 3, 2), REVOKE=1)]

    obs = [
        Ob("queue_capture_step", func="h_fwd", unwind=6, unwindset=uw,
           desc="queue INV-STEP, capture: vbi_proxyd_forward_data from every well-formed queue state (3 buffers, NQ queued, cursors of <= 3 clients symbolic), the device "
                "delivering an arbitrary frame (0..max lines, symbolic time stamp), a timeout or an error: the frame is queued exactly once at the tail, referenced by "
                "exactly the clients that will walk onto it (FORWARD and services granted, or frames still pending), with the captured line count, lines and time stamp; "
                "clients with nothing pending get it as next frame, all other cursors and the order of older frames are unchanged; without a free buffer only the oldest "
                "frame is dropped and only its readers move on; queue invariant kept, no mutex left locked",
           encodes=["vbi_proxyd_forward_data", "vbi_proxy_queue_get_free", "vbi_proxy_queue_force_free", "vbi_proxy_queue_release_sliced", "vbi_proxy_queue_add_tail",
                    "vbi_proxy_queue_add_free", "vbi_capture_read_sliced (inout.c)"],
           bounds="one capture event; 3 buffers of W_MAXLINES lines (quick: 1), NQ = 0..3 queued; 3 clients; last client on the same or the other device", assumes=INV,
           outside="raw (VBI_SLICED_VBI_*) forwarding; acquisition thread; a read that yields no frame after the oldest frame was already dropped for it is not judged",
           defines=dict(W_MAXLINES=1, C19_MAXLINES=1, W_NBUF=3),
           grid=[g(NCL=3, NQ=q, BDEV=b) for q in (0, 1, 2, 3) for b in (0, 1)] + [g(NCL=3, NQ=q, BDEV=0, W_MAXLINES=2, C19_MAXLINES=2) for q in (1, 3)],
           quick_grid=[g(NCL=3, NQ=0, BDEV=0), g(NCL=3, NQ=2, BDEV=0), g(NCL=3, NQ=3, BDEV=1)],
           reach=["end", "queued"], timeout=300, mem_gb=3, vin_size=4096, **common),
        Ob("delivery_step", func="h_deliver", unwind=6, unwindset=dict(uw, **{"c19_log_send.0": 17, "c19_log_send.1": 5}),
           desc="queue INV-STEP, delivery: vbi_proxyd_send_sliced + vbi_proxy_queue_release_sliced (paired as in vbi_proxyd_handle_client_sockets) for a client with a "
                "frame pending, from a queue of NQ frames with symbolic contents, the client's services symbolic: the message is exactly the frame at THAT client's cursor "
                "- header length/type, capture time stamp, number of lines, and the lines whose id intersects the granted services, all of them, in order, byte for byte - "
                "nothing is written behind the allocated message, the queued frame is not modified, the cursor moves on by exactly one frame, the frame loses exactly this "
                "reference (freed iff last reader), no other client is touched, queue invariant kept",
           encodes=["vbi_proxyd_send_sliced", "vbi_proxy_queue_release_sliced", "vbi_proxy_msg_write", "vbi_proxy_msg_handle_write"],
           bounds="one delivery; frames of W_MAXLINES lines of which LC carry data (grid); 2 clients with concrete cursors CUR0/CUR1 (grid); socket blocked (message inspected in the write buffer)",
           assumes=INV + ["the client's line range fixed at subscription (vbi_count) covers the frame (the daemon truncates to it, protecting the client's buffers)"],
           outside="raw services; frames longer than 3 lines (the filter loop is uniform in the line index: argument, not solver)",
           defines=dict(W_NBUF=3, NCL=2, C19_NIO=4),
           grid=[g(W_MAXLINES=2, C19_MAXLINES=2, LC=2, NQ=2, ACT=0, CUR0=0, CUR1=0), g(W_MAXLINES=2, C19_MAXLINES=2, LC=2, NQ=2, ACT=1, CUR0=0, CUR1=1),
                 g(W_MAXLINES=2, C19_MAXLINES=2, LC=1, NQ=1, ACT=0, CUR0=0, CUR1=9), g(W_MAXLINES=2, C19_MAXLINES=2, LC=0, NQ=1, ACT=0, CUR0=0, CUR1=0),
                 g(W_MAXLINES=3, C19_MAXLINES=3, LC=3, NQ=2, ACT=0, CUR0=1, CUR1=0), g(W_MAXLINES=3, C19_MAXLINES=3, LC=3, NQ=1, ACT=1, CUR0=9, CUR1=0),
                 g(W_MAXLINES=3, C19_MAXLINES=3, LC=2, NQ=3, ACT=0, CUR0=0, CUR1=2)],
           quick_grid=[g(W_MAXLINES=2, C19_MAXLINES=2, LC=2, NQ=2, ACT=0, CUR0=0, CUR1=0), g(W_MAXLINES=2, C19_MAXLINES=2, LC=2, NQ=2, ACT=1, CUR0=0, CUR1=1),
                       g(W_MAXLINES=3, C19_MAXLINES=3, LC=3, NQ=1, ACT=1, CUR0=9, CUR1=0)],
           reach=["end", "filtered"], timeout=300, mem_gb=4, vin_size=4096, **common),
        Ob("service_step", func="h_svc", unwind=6, unwindset=uw,
           desc="service INV-STEP: vbi_proxyd_take_service_req (the body of CONNECT_REQ and SERVICE_REQ) with symbolic services at strictness STRICTV, from every invariant "
                "state (other client symbolic; device open with NQ frames queued, or closed), the device granting an arbitrary subset on every call: the request moves to the "
                "given level only; the device is asked for exactly the union of the requests of its clients; every client is granted a subset of its request; the device's "
                "service set is the union of the grants; it is opened at most once, open afterwards iff something is granted and closed otherwise; while it stays open nobody "
                "else's cursor moves; when it closes no cursor survives (the buffers are freed); queue invariant kept",
           encodes=["vbi_proxyd_take_service_req", "vbi_proxyd_update_services", "vbi_proxy_start_acquisition", "vbi_proxy_stop_acquisition", "vbi_proxy_queue_allocate",
                    "vbi_proxyd_update_scanning", "vbi_capture_update_services / _parameters / _fd (inout.c)"],
           bounds="one request; 2 clients (acting client first or last); -buffers 1, every client asks for 1 buffer; 2 one-line buffers; strictness on the grid; "
                  "device closed: outcome of opening it case-split (DEVCASE 0 ok, 3 cannot be opened)", assumes=INV,
           outside="acquisition-thread devices; raw services (buffers with raw sub-buffer); more than 2 clients",
           defines=dict(W_MAXLINES=1, C19_MAXLINES=1, W_NBUF=2, NCL=2),
           grid=[g(ACT=a, DEVOPEN=1, NQ=q, STRICTV=s, BDEV=0) for (a, q, s) in ((0, 1, 0), (1, 1, 2), (0, 0, -1), (1, 2, 1), (0, 2, 0))] +
                [g(ACT=a, DEVOPEN=0, NQ=0, STRICTV=s, BDEV=0, DEVCASE=c) for (a, s, c) in ((0, 0, 0), (1, 1, 0), (0, 2, 3), (1, -1, 3))] +
                [g(ACT=0, DEVOPEN=1, NQ=1, STRICTV=0, BDEV=1)],
           quick_grid=[g(ACT=0, DEVOPEN=1, NQ=1, STRICTV=0, BDEV=0), g(ACT=1, DEVOPEN=1, NQ=1, STRICTV=2, BDEV=0), g(ACT=0, DEVOPEN=0, NQ=0, STRICTV=0, BDEV=0, DEVCASE=0),
                       g(ACT=1, DEVOPEN=0, NQ=0, STRICTV=1, BDEV=0, DEVCASE=3)],
           reach=["end", "open", "closed"], timeout=400, mem_gb=4, vin_size=4096, **common),
        Ob("seq_schedule", func="h_seq", unwind=10, unwindset=SEQ_UW,
           desc="SEQ against a shadow model: clients connected and subscribed (client i to SVCi), empty queue, events in the order given by the grid (1 frame captured with "
                "two symbolic lines and symbolic time stamp, 9 device idle, 2/3/8 client 0/1/2 writable, 4/5 client 0/1 disconnects, 6/7 client 0/1 sends SERVICE_REQ): the "
                "messages handed to send() for client i are - after a pending reply - in capture order, exactly once, the frames captured while it was subscribed, each "
                "filtered to its granted services, with the capture time stamp; nothing else is sent; when the daemon runs out of buffers only the oldest frame is lost and "
                "only by the clients that had not read it (a stalled client costs the others nothing); a client changing its services loses only its own queued frames; "
                "queue invariant and lock discipline after every event",
           encodes=SEQ_ENC, bounds=SEQ_BOUNDS, outside=SEQ_OUT, assumes=["state after CONNECT_REQ constructed directly (services at strictness 0, all granted)"],
           defines=SEQ_DEF, grid=sched_t, quick_grid=sched_q,
           reach=["end", "delivered"], timeout=300, mem_gb=4, vin_size=4096, **common),
        Ob("seq_revoke", func="h_seq", unwind=10, unwindset=SEQ_UW,
           desc="SEQ, the device revokes services: as seq_schedule, but the k-th service re-computation call of the run (bit k of REVOKE) is answered with 'nothing' - what a "
                "norm change or a conflicting request of a client earlier in the list does to vbi_capture_update_services.  A client that loses all its services while frames "
                "are pending still gets those frames (and the frames captured until its queue is drained, without lines), every other client gets every frame once; if the "
                "device is closed because nothing is granted any more, no client keeps a cursor into the freed queue",
           encodes=SEQ_ENC, bounds=SEQ_BOUNDS, outside=SEQ_OUT, assumes=["state after CONNECT_REQ constructed directly (services at strictness 0, all granted)"],
           defines=SEQ_DEF, grid=revoke_t, quick_grid=revoke_q,
           reach=["end", "delivered"], timeout=300, mem_gb=4, vin_size=4096, **common),
    ]
    return obs
