import os
from vlib.runner import Ob
from vlib.props.C19 import PROPOSED_PATCH as C19_PATCH, STUBS, UB_IGNORE

# proposed patches (C18_PROPOSED_PATCH=1 or C19_PROPOSED_PATCH=1: scratch copies only)
PROPOSED_PATCH = {k: list(v) for k, v in C19_PATCH.items()}
PROPOSED_PATCH["daemon/proxyd.c"] = PROPOSED_PATCH["daemon/proxyd.c"] + [
    # F. a frame may fill every line of the buffer
    (r"assert\(p_buf->line_count < p_buf->max_lines\);", "assert(p_buf->line_count <= p_buf->max_lines);"),
    # G. reference accounting follows the cursors: a client with frames still pending references the new frame too,
    #    even if a service re-computation (norm change, other client's request) left it without granted services
    (r"\(req->state == REQ_STATE_FORWARD\) &&\n(\s*)\(req->all_services != 0\) \)",
     "(req->state == REQ_STATE_FORWARD) &&\n\\1((req->all_services != 0) || (req->p_sliced != NULL)) )"),
]

M = ["c19_io.c"]
U = ["src/inout.c", "src/misc.c"]


def obligations(tier, seed):
    patch = PROPOSED_PATCH if (os.environ.get("C18_PROPOSED_PATCH") == "1" or os.environ.get("C19_PROPOSED_PATCH") == "1") else None
    RB = ["vbi_proxyd_acq_thread"]
    common = dict(harness="h_c18.c", units=U, models=M, stubs=STUBS, patch=patch, ignore=UB_IGNORE, remove_bodies=RB)
    g = lambda **kw: dict(kw)
    INV = ["queue invariant (asserted again after every step): every queued frame is referenced exactly by the clients whose cursor is at or before it, "
           "cursors point into the queue of their device, no buffer both queued and free, lists acyclic; <= 1 token owner; device open <=> capture present"]
    obs = [
        Ob("queue_capture_step", func="h_fwd", unwind=6, unwindset={"memcmp.0": 66},
           desc="queue INV-STEP, capture: vbi_proxyd_forward_data from every well-formed queue state (3 buffers, NQ queued, cursors of <= 3 clients symbolic), the device "
                "delivering an arbitrary frame (0..max lines, symbolic time stamp), a timeout or an error: the frame is queued exactly once at the tail, referenced by "
                "exactly the subscribed clients (FORWARD, services granted), with the captured line count and time stamp; clients with nothing pending get it as next frame, "
                "all other cursors and the order of older frames are unchanged; without a free buffer only the oldest frame is dropped and only its readers move on; "
                "queue invariant kept, no mutex left locked",
           encodes=["vbi_proxyd_forward_data", "vbi_proxy_queue_get_free", "vbi_proxy_queue_force_free", "vbi_proxy_queue_release_sliced", "vbi_proxy_queue_add_tail",
                    "vbi_proxy_queue_add_free", "vbi_capture_read_sliced (inout.c)"],
           bounds="one capture event; 3 one-line buffers (exact-size objects), NQ = 0..3 queued; 2..3 clients; last client on the same or the other device", assumes=INV,
           outside="raw (VBI_SLICED_VBI_*) forwarding; buffers with more than one line (contents are copied by the device layer, not by this step); acquisition thread",
           defines=dict(W_MAXLINES=1, C19_MAXLINES=1, W_NBUF=3),
           grid=[g(NCL=3, NQ=q, BDEV=b) for q in (0, 1, 2, 3) for b in (0, 1)], quick_grid=[g(NCL=3, NQ=0, BDEV=0), g(NCL=3, NQ=2, BDEV=0), g(NCL=3, NQ=3, BDEV=1)],
           reach=["end", "queued"], timeout=300, mem_gb=3, vin_size=4096, **common),
    ]
    return obs
