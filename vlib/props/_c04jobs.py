# C04: job table after vbi3_raw_decoder_remove_services ("never as a service that was not requested")
from vlib.runner import Ob


def jobs_obs():
    U = ["src/bit_slicer.c", "src/sampling_par.c", "src/misc.c"]
    full = [dict(NJ=n, MATCH=m, PROWS=1) for n in (1, 2, 3, 4) for m in range(1 << n)] + [dict(NJ=2, MATCH=2, PROWS=0)]   # PROWS=2: cbmc does not reset the unwind counter of remove_job_from_pattern's inner fill loop between rows (spurious unwinding failure)
    quick = [dict(NJ=3, MATCH=m, PROWS=1) for m in range(8)] + [dict(NJ=2, MATCH=2, PROWS=0)]
    return [Ob("remove_services_job_table", harness="h_c04_jobs.c", func="h_remove_services", unwind=20,
               unwindset={"jobs_eq.0": 400, "job_zero.0": 400, "memmove.0": 500, "memmove.1": 500, "memset.0": 400},
               desc="vbi3_raw_decoder_remove_services on a decoder with NJ jobs of which those in MATCH decode a removed service (case split by the "
                    "runner), job contents (id bits, bit slicer state), service sets and pattern table symbolic: the jobs that remain are exactly the "
                    "jobs of services still requested, in order and unmodified, no remaining job decodes a removed service (hence no record can be "
                    "reported for a service no longer requested), vacated slots are cleared, the pattern table names only existing jobs, the "
                    "returned set is the old set minus the removed one",
               encodes=["vbi3_raw_decoder_remove_services", "remove_job_from_pattern"],
               bounds="1..4 jobs, every match pattern (quick: 3 jobs, all 8 patterns), pattern table of 0..1 rows; job ids and the removed set concrete (case split), slicer state of every job, other requested services and the pattern table symbolic",
               stubs=["memmove: byte loop model under cbmc (the built-in one replaces a byte range of the whole decoder object and destroys constant folding of n_jobs); native replay uses libc"],
               outside="more than 4 jobs (the loop is uniform in the job index: argument, not solver)",
               grid=full, quick_grid=quick, reach=["end"], timeout=100, mem_gb=4, vin_size=1024, units=U, solver="cadical")]
