from vlib.runner import Ob

US = {"vbi_cache_new.0": 114, "vbi_cache_delete.2": 114, "audit.8": 114}


def obligations(tier, seed):
    common = dict(harness="h_c10.c", unwind=14, unwindset=US, vin_size=256,
                  stubs=["models/c10_env.h: vbi_malloc/vbi_free -> slot pool (1 cache, C10_NN networks, C10_NP pages; separate objects; "
                         "allocation never fails; exceeding the pool ends the path); free of a non-live pointer is an assertion failure",
                         "_vbi_log_printf/_vbi_log_vprintf/_vbi_vasprintf empty (log hooks are off)"])
    return [
        Ob("cache_new", func="h_new", desc="vbi_cache_new establishes the invariant with the documented defaults; vbi_cache_delete frees it",
           encodes=["vbi_cache_new", "vbi_cache_delete", "vbi_cache_purge"], bounds="none", timeout=120, **common),
        Ob("get_page", func="h_get", desc="get", encodes=["_vbi_cache_get_page", "page_by_pgno", "cache_page_ref"],
           grid=[dict(C10_P=0)], reach=["end", "hit", "miss", "first_ref"], timeout=300, **common),
    ]
