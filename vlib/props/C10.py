from vlib.runner import Ob

US = {"vbi_cache_new.0": 114, "vbi_cache_delete.2": 114, "audit.8": 114, "ref_is_bcd.0": 9, "ref_digit_gt.0": 9,
      "link_list.0": 7, "link_list.1": 7}
MF = ["--max-field-sensitivity-array-size", "113"]


def cfg(s, r, p=None, **kw):
    d = dict(C10_NB=len(s))
    for i, v in enumerate(s):
        d["C10_S%d" % i] = v
    for i, v in enumerate(r):
        d["C10_R%d" % i] = v
    if p is not None:
        d["C10_P"] = p
    d.setdefault("C10_NP", len(s))
    d.update(kw)
    return d


def obligations(tier, seed):
    common = dict(harness="h_c10.c", unwind=5, unwindset=US, vin_size=256, flags=MF,
                  stubs=["models/c10_env.h: vbi_malloc/vbi_free -> slot pool (1 cache, C10_NN networks, C10_NP pages; separate objects; "
                         "allocation never fails; exceeding the pool ends the path); free of a non-live pointer is an assertion failure",
                         "_vbi_log_printf/_vbi_log_vprintf/_vbi_vasprintf empty (log hooks are off)"])
    return [
        Ob("cache_new", func="h_new", desc="vbi_cache_new establishes the invariant with the documented defaults; vbi_cache_delete frees it",
           encodes=["vbi_cache_new", "vbi_cache_delete", "vbi_cache_purge"], bounds="none", timeout=120, **common),
        Ob("get_page", func="h_get", desc="get", encodes=["_vbi_cache_get_page", "page_by_pgno", "cache_page_ref"],
           grid=[cfg((0, 0, 1), (0, 0, 0), 0), cfg((0, 0, 1), (1, 1, 1), 0), cfg((0, 0, 1), (0, 1, 0), 0)], reach=["end", "hit", "miss"], timeout=400, **common),
        Ob("put_page", func="h_put", desc="put", encodes=["_vbi_cache_put_page"],
           grid=[cfg((0, 0), (0, 0), 0, C10_NP=3), cfg((0, 0), (1, 1), 0, C10_NP=3), cfg((0, 1), (0, 1), 0, C10_NP=3)], reach=["end", "put_new"], timeout=400, **common),
        Ob("page_ref", func="h_ref", desc="ref", encodes=["cache_page_ref"],
           grid=[cfg((0, 0, 1), (0, 1, 0), C10_SLOT=0), cfg((0, 0, 1), (0, 1, 0), C10_SLOT=1)], reach=["end"], timeout=400, **common),
        Ob("page_unref", func="h_unref", desc="unref", encodes=["cache_page_unref"],
           grid=[cfg((0, 0, 1), (0, 1, 0), C10_SLOT=0), cfg((0, 0, 1), (0, 1, 0), C10_SLOT=1)], reach=["end"], timeout=400, **common),
    ]
