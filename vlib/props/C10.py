from vlib.runner import Ob

# loop bounds: 113 hash heads (vbi_cache_new, vbi_cache_delete, audit), 8 nibbles (BCD helpers), 6 permutations x 3
# (builder), 8 marker bytes (memcpy model); every list walk of cache.c / the audit: <= C10_NP + 2 = 5 iterations
US = {"vbi_cache_new.0": 114, "vbi_cache_delete.2": 114, "audit.8": 114, "ref_is_bcd.0": 9, "ref_digit_gt.0": 9,
      "link_list.0": 7, "link_list.1": 7, "memcpy.0": 9}
# the 113 list heads of vbi_cache.hash[] must be separate fields for CBMC's points-to sets (see harness header)
MF = ["--max-field-sensitivity-array-size", "113"]

ALPHA = "page numbers {0x151, 0x233 (BCD), 0x1C2 (hex)}, all in hash bucket 111"
STUBS = ["models/c10_env.h + harness allocator model: vbi_malloc/vbi_free (macros for malloc/free in 0.2 builds) -> slot pool: 1 cache, C10_NN networks, "
         "C10_NP pages, separate objects, every page allocation must have the size class of the run (1564 = LOP); allocation never fails, exhausting the "
         "pool ends the path; freeing a pointer that is not a live slot fails VP:free_of_live_object; natively: real calloc/free of the exact size (ASan)",
         "page objects under CBMC = cache_page header (88 bytes, same layout, checked by a static assertion) + 8 body bytes; memcpy model (CBMC only): "
         "records (dst, src, n) of the single page-body copy in _vbi_cache_put_page and copies 8 bytes; the harness asserts dst/src/n against the allocation",
         "memset model (CBMC only): CLEAR(*cn)/CLEAR(*ca) as typed zero assignments, any other memset fails",
         "_vbi_log_printf/_vbi_log_vprintf/_vbi_vasprintf empty (log hooks off); _vbi_global_log zero"]
ASSUMES = ["constructed pre-state: <= 3 pages, <= 2 networks, built by the harness through the allocator model on top of the real vbi_cache_new(); per page slot "
           "the page number (alphabet index) and the reference class (unreferenced / referenced) are grid-concrete, everything else symbolic: network, subpage "
           "number (any the cache stores: BCD 0..0x79 or clock 0x0100..0x2359; hex pages any S4..S1), function within the size class, reference count 1..2, "
           "zombie flag, priority, content markers, national/flags, network reference counts 0..2 and zombie flags, decoder statistics, high-water marks, and "
           "the order of every list (symbolic permutations); the pre-state satisfies the audit (asserted, VP:pre_audit, not assumed)",
           "memory_limit = 1 GB as vbi_cache_new sets it (0.2 builds never change it: vbi_cache_set_memory_limit is not compiled)"]
AUDIT = ("audit = representation invariant on the real memory: every list is a consistent ring of live objects; every non-zombie page is on exactly the chain "
         "of hash(pgno) once, a zombie page on none; on `priority` iff ref_count == 0 else on `referenced`; zombie => referenced; the other 112 heads empty; "
         "ca->n_cached_pages == #live pages; memory_used == sum of sizes of unreferenced pages <= memory_limit; allocation size == cache_page_size(); "
         "cn->n_cached_pages / n_referenced_pages / ps->n_subpages exact, high-water marks >= ; stored keys in the documented domain; n_cached_networks == "
         "#non-zombie networks; a zombie network is held by a reference or a referenced page; statistics of neighbouring page numbers untouched")


def cfg(s, r, p=None, **kw):
    d = dict(C10_NB=len(s))
    for i, v in enumerate(s):
        d["C10_S%d" % i] = v
    for i, v in enumerate(r):
        d["C10_R%d" % i] = v
    if p is not None:
        d["C10_P"] = p
    d.setdefault("C10_NP", max(len(s), 1))
    d.update(kw)
    return d


def _limit_obs(common):
    """SEQ put(page A) / release / limit := L / put(page B of another size class): boundary values of L derived from the two sizes"""
    ait_lop = dict(C10_K=2, C10_NP=2, C10_NN=1, C10_NB=0, C10_NNB=0, C10_Q0=0, C10_Q1=0, C10_PSIZE=1196, C10_FN="PAGE_FUNCTION_AIT", C10_PUT_PSIZE=1564, C10_PUT_FN="PAGE_FUNCTION_LOP")
    # dropped after measurement: A = LOP (1564), B = LOP + X/26 data (2192), L = 2192 - the variant in which a page with ANOTHER key is actually evicted
    # (collected by the eviction walk, then delete_page over death_row[]): symex > 430 s at 240 MB, no verdict; with A = AIT the walk ends in `failure'
    desc = ("SEQ from the empty cache: put(page A), release it (stays cached, unreferenced), memory_limit := L (grid), put(page B of ANOTHER size class, same page number, "
            "both sub-codes symbolic): the second put may fail (NULL, nothing changes) only when a page with another key would have to be given up, never when it replaces "
            "the cached page or fits next to it, and never succeeds beyond L; the block returned has exactly the size of the new page (an allocation of another size class is "
            "never reused; the body copy stays inside both allocations); the cached page is freed exactly when it is replaced (same key) or has to make room; memory_used "
            "exact and <= L; audit after every operation.  ")
    enc = ["_vbi_cache_put_page", "page_by_pgno", "cache_page_unref", "delete_page", "cache_network_remove_page", "cache_network_add_page", "cache_page_size"]
    ass = ["memory_limit is a parameter of the sequence (vbi_cache_new sets 1 GB; with 1 GB the boundary cases need ~700 000 cached pages, which no bounded history "
           "reaches); boundary values L on the grid, derived from needed (size of B) and memory_used (size of A)"]
    out = ("other size-class pairs; more than one eviction candidate (put's eviction walks over several pages: symex does not finish, see seq_put_put); whether put finds room "
           "whenever room could be made (it does not, see the harness comment - not demanded by the property)")
    mk = lambda base, ls: [dict(base, C10_LIMIT=l) for l in ls]
    bnd = "3 operations; 1 network; page 0x151; size classes and L on the grid"
    return [
        Ob("put_at_memory_limit", func="h_seq_limit", desc=desc + "A = AIT (1196 bytes), B = LOP (1564); L = needed, needed + 1, needed + used - 1: the cached page is in the way",
           encodes=enc, bounds=bnd, outside=out, assumes=ass, grid=mk(ait_lop, (1564, 1565, 2759)), quick_grid=mk(ait_lop, (1564,)),
           reach=["end", "replaced", "eviction_needed"], timeout=600, mem_gb=5, **common),
        Ob("put_below_memory_limit", func="h_seq_limit", desc=desc + "A = AIT, B = LOP; L = needed + used, 1 GB: the cached page goes only when replaced",
           encodes=enc, bounds=bnd, outside=out, assumes=ass, grid=mk(ait_lop, (2760, 1 << 30)), quick_grid=mk(ait_lop, (2760,)),
           reach=["end", "replaced", "kept"], timeout=600, mem_gb=5, **common),
        Ob("put_no_room", func="h_seq_limit", desc=desc + "A = AIT, B = LOP; L = needed - 1: the put fails and changes nothing", tier="thorough",
           encodes=enc, bounds=bnd, outside=out, assumes=ass, grid=mk(ait_lop, (1563,)), reach=["end", "failed"], timeout=600, mem_gb=5, **common),
    ]


def obligations(tier, seed):
    common = dict(harness="h_c10.c", unwind=5, unwindset=US, vin_size=256, flags=MF, stubs=STUBS)
    inv = dict(assumes=ASSUMES, **common)
    get_q = [cfg((0, 0, 1), (0, 0, 0), 0), cfg((0, 0, 1), (0, 1, 0), 0), cfg((2, 2, 0), (0, 1, 1), 2)]
    get_t = get_q + [cfg((0, 0, 1), (1, 1, 1), 0), cfg((0, 0, 0), (0, 1, 0), 0), cfg((0, 1, 2), (1, 0, 1), 1), cfg((2, 2, 2), (0, 0, 1), 2),
                     cfg((0, 1, 2), (0, 0, 0), 3), cfg((0, 0), (0, 1), 0), cfg((0,), (0,), 0)]
    ref_q = [cfg((0, 0, 1), (0, 1, 0), C10_SLOT=0), cfg((0, 0, 1), (0, 1, 0), C10_SLOT=1)]
    ref_t = ref_q + [cfg((0, 2, 1), (1, 1, 0), C10_SLOT=2), cfg((0,), (0,), C10_SLOT=0), cfg((2, 2), (1, 0), C10_SLOT=0)]
    nz = dict(C10_Z0=0, C10_Z1=0)
    unref_q = [cfg((0, 0, 1), (0, 1, 0), C10_SLOT=1, C10_PZ1=0, C10_RC1=1, **nz), cfg((0, 0, 1), (0, 1, 0), C10_SLOT=1, C10_PZ1=0, C10_RC1=2, **nz),
               cfg((0, 0, 1), (0, 1, 1), C10_SLOT=1, C10_PZ1=1, C10_RC1=1, **nz), cfg((0, 0, 1), (0, 1, 0), C10_SLOT=0)]
    unref_t = unref_q + [cfg((2, 0, 2), (1, 1, 1), C10_SLOT=0, C10_PZ0=0, C10_RC0=1, **nz), cfg((0,), (1,), C10_SLOT=0, C10_PZ0=1, C10_RC0=1, **nz),
                         cfg((1, 1, 0), (1, 1, 0), C10_SLOT=1, C10_PZ1=1, C10_RC1=2, **nz), cfg((2, 2, 2), (1, 1, 1), C10_SLOT=2, C10_PZ2=1, C10_RC2=1, **nz)]
    seq_pp = dict(C10_K=2, C10_NP=3, C10_NN=1, C10_NB=0, C10_NNB=0)
    return [
        Ob("cache_new", func="h_new",
           desc="INIT |= invariant: the real vbi_cache_new() yields a cache that passes the audit with the documented defaults (no page, no network, memory "
                "limit 1 GB, network limit 1, ref_count 1); vbi_cache_delete() of it frees exactly that allocation. " + AUDIT,
           encodes=["vbi_cache_new", "vbi_cache_delete", "vbi_cache_purge", "list_init", "list_destroy"], bounds="none (concrete)", timeout=120, **common),
        Ob("get_page", func="h_get",
           desc="INV-STEP _vbi_cache_get_page(ca, cn, pgno, subno, mask) with cn any live network, pgno grid-concrete (alphabet or the invalid numbers 0x1FF/0x0FF/"
                "0x900), subno and mask arbitrary 32-bit: returns the FIRST page on the bucket's chain (= most recently stored or looked up) of that network "
                "whose key matches under the mask (VBI_ANY_SUBNO = wildcard), NULL iff none (and then nothing changes at all); the hit gets one more reference, "
                "keeps key and content, becomes chain head with the others' order preserved; on the first reference it moves from `priority` to the tail of "
                "`referenced`, memory_used drops by its size, n_referenced_pages+1, a zombie network is revived; nothing else changes; audit holds after. "
                "CACHE_CONSISTENCY asserts of cache.c are proof obligations",
           encodes=["_vbi_cache_get_page", "page_by_pgno", "cache_page_ref", "cache_page_size", "is_member", "unlink_node", "add_head", "add_tail"],
           bounds="one operation; pre-state <= 3 pages / 2 networks; " + ALPHA + "; grid = (page number, reference class) per slot x operation page number",
           outside="more than 3 pages on a chain; other buckets (the harness asserts they stay empty)",
           grid=get_t, quick_grid=get_q, reach=["end", "hit", "miss"], timeout=600, mem_gb=5, **inv),
        Ob("page_ref", func="h_ref",
           desc="INV-STEP cache_page_ref(cp), cp any live page (grid slot): returns cp, ref_count+1, key/content intact; first reference moves it to the tail "
                "of `referenced`, memory accounting and n_referenced_pages exact, zombie network revived; every other page, list order, network untouched; audit after",
           encodes=["cache_page_ref", "cache_page_size"], bounds="one operation; pre-state <= 3 pages / 2 networks; " + ALPHA,
           grid=ref_t, quick_grid=ref_q, reach=["end"], timeout=400, **inv),
        Ob("page_unref", func="h_unref",
           desc="INV-STEP cache_page_unref(cp), cp a live page (grid slot): ref_count 0 -> no-op (warning); 2 -> decrement only (also of a zombie page: it "
                "stays intact); last reference of a cached page -> tail of `priority`, memory_used += size, n_referenced_pages-1, page intact and still "
                "cached; last reference of a ZOMBIE page (superseded or dropped while held) -> exactly that allocation is freed, it leaves `referenced`, "
                "n_cached_pages / n_referenced_pages / page statistics are decremented; every other page/list/network untouched; audit after.  Reference "
                "count, zombie flag and priority of the released page and the networks' zombie flags (0) are grid-concrete, see `outside`",
           encodes=["cache_page_unref", "delete_page", "page_in_cache", "cache_network_remove_page", "cache_page_size"],
           bounds="one operation; pre-state <= 3 pages / 2 non-zombie networks; zombie flag and priority of the released page grid-concrete; " + ALPHA,
           outside="the last reference into a ZOMBIE network (delete_network -> delete_all_pages walks ca->priority while deleting) and "
                   "delete_surplus_pages(): symex follows the walk with a phantom list-head candidate and does not finish (> 400 s, see report); executed "
                   "only by the native self-test runs",
           grid=unref_t, quick_grid=unref_q, reach=["end"], timeout=600, mem_gb=5, **inv),
        Ob("get_network", func="h_get_network",
           desc="INV-STEP _vbi_cache_get_network(ca, &cn->network) / unknown vbi_network / cache_network_ref: found iff it is one of the cache's networks, "
                "reference +1 (+2 after cache_network_ref), zombie network revived (n_cached_networks+1), moved to the head of the network list, order of "
                "the others kept; pages, page lists, memory untouched; unknown network -> NULL, nothing changes; audit after",
           encodes=["_vbi_cache_get_network", "network_by_id", "cache_network_ref"], bounds="one operation; pre-state <= 3 pages / 2 networks; " + ALPHA,
           grid=[cfg((0, 0, 1), (0, 1, 0))], reach=["end", "found", "unknown"], timeout=400, **inv),
        Ob("add_network_pages_held", func="h_add_network",
           desc="INV-STEP _vbi_cache_add_network(ca, NULL) - the channel switch - from every state in which ALL cached pages are held by callers (priority list empty): "
                "with the cache at its network limit the least recently used network that nobody holds AND that has no held page is recycled, otherwise a new network is "
                "allocated; a network with a held page is never recycled (its page would become reachable through the new station's network and the counters would be "
                "zeroed under it); the returned network has no pages, every page and every other network is untouched, lists and memory accounting exact; audit after",
           encodes=["_vbi_cache_add_network", "add_network", "recycle_network", "delete_all_pages"],
           bounds="one operation; pre-state 1..2 held pages on 1..2 networks (reference counts 0..2, zombie flags symbolic), one free network slot; " + ALPHA,
           outside="states with unreferenced pages (delete_all_pages deletes while walking ca->priority: symex follows the walk with a phantom list-head candidate and "
                   "does not finish, see page_unref); those are exercised natively only",
           grid=[cfg((0, 1), (1, 1), C10_NN=3, C10_NNB=2), cfg((0,), (1,), C10_NN=3, C10_NNB=2), cfg((0, 0, 2), (1, 1, 1), C10_NN=3, C10_NNB=2)],
           quick_grid=[cfg((0, 1), (1, 1), C10_NN=3, C10_NNB=2), cfg((0,), (1,), C10_NN=3, C10_NNB=2)],
           reach=["end", "recycled", "allocated"], timeout=600, mem_gb=5, **inv),
        *_limit_obs(common),
        Ob("seq_put_put", func="h_seq",
           desc="SEQ-2 from the empty cache: real vbi_cache_new, _vbi_cache_add_network(NULL), then two _vbi_cache_put_page (page numbers grid-concrete, "
                "sub-codes, decoder page type and content marker symbolic), pages stay held: after every operation the audit holds and the cache equals a "
                "reference map (recency-ordered list of page number / stored subpage number / pointer): the second put supersedes the first exactly when EN 300 706 "
                "A.1 (as documented in cache.c) says so, a superseded HELD page survives intact as a zombie, stored subpage numbers are the normalised ones; "
                "put's body copy stays inside both allocations",
           encodes=["vbi_cache_new", "_vbi_cache_add_network", "add_network", "_vbi_cache_put_page", "page_by_pgno", "cache_network_add_page"],
           bounds="2 operations; 1 network; " + ALPHA + " (grid: both puts to the same page / to colliding pages)",
           outside="sequences that release a page before the next put (cache_page_unref with symbolic memory_used explores delete_surplus_pages; put with a "
                   "non-empty priority list explores the eviction loops: symex does not finish, see report)",
           grid=[dict(seq_pp, C10_Q0=0, C10_Q1=0), dict(seq_pp, C10_Q0=2, C10_Q1=2), dict(seq_pp, C10_Q0=0, C10_Q1=1)],
           quick_grid=[dict(seq_pp, C10_Q0=0, C10_Q1=0)], reach=["end"], timeout=900, **common),
        Ob("seq_put_put_get", func="h_seq",
           desc="SEQ-3 from the empty cache: two puts as in seq_put_put (pages held), then _vbi_cache_get_page with arbitrary subno and mask on a grid page "
                "number: the lookup finds a page iff the reference map holds a matching version, returns exactly the most recently stored version under the "
                "mask (VBI_ANY_SUBNO = wildcard), copy-equal in key and content marker, and makes it the most recent; audit and map equality after every operation",
           encodes=["vbi_cache_new", "_vbi_cache_add_network", "_vbi_cache_put_page", "_vbi_cache_get_page", "page_by_pgno", "cache_page_ref", "cache_network_add_page"],
           bounds="3 operations put/put/get (thorough: also put/get/put); 1 network; " + ALPHA,
           outside="see seq_put_put; channel switch and release sequences are exercised only natively (self-test, LeakSanitizer)",
           grid=[dict(seq_pp, C10_K=3, C10_Q0=0, C10_Q1=0, C10_Q2=0), dict(seq_pp, C10_K=3, C10_Q0=2, C10_Q1=2, C10_Q2=2), dict(seq_pp, C10_K=3, C10_Q0=0, C10_Q1=1, C10_Q2=0),
                 dict(seq_pp, C10_K=3, C10_O1="'G'", C10_O2="'P'", C10_Q0=0, C10_Q1=0, C10_Q2=0)],
           quick_grid=[dict(seq_pp, C10_K=3, C10_Q0=0, C10_Q1=0, C10_Q2=0)], reach=["end", "seq_hit"], timeout=900, mem_gb=5, **common),
        # ---- the same SEQ-2 harness with ONE more assertion each; both were refuted on the pinned tree (fixed in /repo: f2b89ba, 9fdacfa; reverse patches seeded/FIX-cache-*)
        Ob("subno_range_covers_cached", func="h_seq",
           desc="SEQ-2 as seq_put_put plus: the subpage range recorded for a page number (ttx_page_stat.subno_min/subno_max - what vbi_cache_hi_subno returns and "
                "what _vbi_cache_foreach_page/vbi_search uses to enumerate subpages) covers every cached subpage 0..0x79 of that page (pinned tree: put(p.0) then "
                "put(p.1) left subno_min = 1 with p.0 cached)",
           encodes=["_vbi_cache_put_page", "cache_network_add_page"], bounds="2 operations; " + ALPHA, defines=dict(C10_RANGE=None),
           grid=[dict(seq_pp, C10_Q0=0, C10_Q1=0)], reach=["end"], timeout=900, **common),
        Ob("subno_min_le_max", func="h_seq",
           desc="SEQ-2 as seq_put_put plus: whenever a page number has cached subpages, subno_min <= subno_max (otherwise _vbi_cache_foreach_page skips the page "
                "number, and never returns if it is the only one cached) (pinned tree: clock-page sub-codes >= 0x100 were truncated to uint8_t, put(p.0x1201) "
                "then put(p.0x0100) gave subno_min = 1, subno_max = 0)",
           encodes=["_vbi_cache_put_page", "cache_network_add_page"], bounds="2 operations; " + ALPHA, defines=dict(C10_MINMAX=None),
           grid=[dict(seq_pp, C10_Q0=0, C10_Q1=0)], reach=["end"], timeout=900, **common),
    ]
