from vlib.runner import Ob

NF, NU = 3, 2

STUBS = [
    "models/c11_stubs.c: pthread_mutex_{init,destroy,lock,trylock,unlock} = one flag per mutex with assertions (lock: not held; unlock: held; trylock: EBUSY iff held)",
    "models/c11_stubs.c: vbi_teletext_channel_switched / vbi_caption_channel_switched / vbi_trigger_flush = no effect, call counters (what vbi_event_enable triggers; their effect is C01/C13 matter)",
    "models/c11_stubs.c: every other function vbi.c references (constructors, decode functions, cache) = assert-unreached stub; _vbi_global_log, vbi_font_descriptors = zero objects",
    "models/c11_carve.h: struct caption (168 KB) and struct teletext (46 KB) replaced through their include guards by stand-ins holding only the members vbi.c names; the event code touches neither",
    "vbi_decoder = static zero object (the state calloc in vbi_decoder_new leaves in handlers/next_handler/event_mask/event_mutex); vbi_decoder_new not executed",
    "calloc/free = CBMC's built-in allocator model (fresh object per call; free'd objects tracked: any later access is a failed property)",
]
CUT = ("indirect call cut: `eh->handler(ev, eh->user_data)` routed by macro through c11_dispatch() which asserts the pointer is one of the NF harness handler "
       "functions and runs the common callback body (same if-chain CBMC's function pointer removal builds; callback body executed once per traversal step "
       "instead of NF times); the *_direct obligation runs the verbatim indirect call")
ASSUME_I = ("representation invariant I of the handler list (start state of the INV harnesses): NULL-terminated list of <= N0 distinct malloc'ed records, pairwise "
            "different (handler, user_data), every event_mask != 0, vbi->event_mask = OR of masks, next_handler = NULL, event_mutex free; "
            "I is re-established by api_step (any API call) and by deliver (any event incl. nested calls); the zero decoder satisfies I (n = 0)")
TYPES = "event type: any single bit of 32"
ENC = ["vbi_event_handler_register", "vbi_event_handler_unregister", "vbi_event_handler_add", "vbi_event_handler_remove",
       "vbi_event_enable", "vbi_reset_prog_info"]


def bounds(n0=3, cbk=1, nev=1, nact=1, r_ops=0, nf=NF, direct=False, extra=None, list_extra=0):
    """defines + unwind numbers for one instance.  list length <= n0 (+ r_ops) + calls that can append"""
    start = max(n0, r_ops)
    keys = nf * NU
    maxi = start + nev * cbk
    longest = min(start + nev * cbk, keys)          # records in the list at any time
    visits = min(start + nev * cbk, maxi)           # records vbi_send_event can visit in one traversal
    d = dict(NF=nf, N0=n0, R_OPS=r_ops, NEV=nev, NACT=nact, CBK=cbk)
    if direct:
        d["C11_DIRECT_CALL"] = 1
    if extra:
        d.update(extra)
    us = {"vbi_reset_prog_info.0": 9, "vbi_reset_prog_info.1": 9,
          "vbi_event_handler_register.0": longest + 1 + list_extra, "vbi_event_handler_add.0": longest + 1 + list_extra,
          "vbi_send_event.0": visits + 1}
    return d, maxi + 1, us


def obligations(tier, seed):
    obs = []

    def ob(name, func, desc, bnd, reach, otier="quick", timeout=300, mem_gb=4, functional=False, solver=None, encodes=None,
           outside="", assumes=(), bounds_txt="", extra_defs=None, **kw):
        d, unwind, us = bounds(**bnd)
        d.update(extra_defs or {})
        flags = ["--no-pointer-check"] if functional else []
        stubs = list(STUBS) + ([] if bnd.get("direct") else [CUT])
        if functional:
            desc += "  [functional obligation: run with --no-pointer-check; the pointer/deallocated-object checks of the same code are discharged by api_step, api_step_in_callback and deliver_1_safe, deliver_2_safe and deliver_direct]"
        obs.append(Ob(name, harness="h_c11.c", func=func, desc=desc, encodes=encodes or ENC, unwind=unwind, unwindset=us, defines=d,
                      models=["c11_stubs.c"], flags=flags, tier=otier, timeout=timeout, mem_gb=mem_gb, solver=solver, stubs=stubs,
                      assumes=list(assumes), bounds=bounds_txt, outside=outside, reach=reach, vin_size=160, **kw))

    OUT = ("nested vbi_send_event from inside a handler (the decoder never does it; calling vbi_decode from a handler is forbidden); allocation failure; "
           "other threads; lists longer than the stated bound; traversals longer than the stated number of nested calls (note: termination of vbi_send_event is NOT "
           "implied by the property - two handlers that each unregister and re-register themselves on every invocation keep one vbi_send_event going forever, "
           "every new instance being called once)")

    ob("api_step", "h_api_step",
       "INV-STEP outside delivery: from every handler list satisfying I (0..3 records, symbolic functions/user pointers/32-bit masks) one call of "
       "vbi_event_handler_register / _unregister / _add / _remove with symbolic arguments: returns TRUE; the list afterwards is exactly the documented one "
       "(mask changed in place, record removed, or new record appended at the END; legacy add/remove act on ALL records of the function, ignoring user_data); "
       "I holds again; vbi->event_mask == OR of the registered masks (all 32 bits) hence Teletext enabled iff a TTX_PAGE handler exists; "
       "vbi_teletext_channel_switched called exactly once iff the TTX_PAGE bit appears; event mutex released; no freed record touched, no double free; "
       "frame: decoder members next to the ones vbi_event_enable may reset (network, prog_info[], vps_pid) and next to the list head keep their sentinel values",
       dict(n0=3, cbk=1), ["end", "appended", "removed_two", "ttx_on", "ttx_off"], timeout=200,
       assumes=[ASSUME_I], bounds_txt="one API call from any list of <= 3 records; histories of any length (outside delivery) by induction over I while the list has <= 3 records before the call",
       outside=OUT)

    ob("api_step_in_callback", "h_api_step_cb",
       "INV-STEP inside delivery (cursor lemma): state as in api_step but event mutex held by vbi_send_event and traversal cursor vbi->next_handler at an arbitrary "
       "record of the list or NULL; one API call of any kind: list updated as documented; cursor afterwards = first record at/after the old cursor position "
       "that survived (so every still-registered later handler will be visited, removed ones never, order kept); if none survived: NULL or the record appended "
       "by this call; mutex still held (trylock => EBUSY => no unlock); event_mask == OR; no freed record touched",
       dict(n0=3, cbk=1), ["end", "cursor_patched", "cursor_tail_removed", "ttx_on_in_callback"], timeout=200,
       assumes=[ASSUME_I + "; mid-delivery: mutex held, cursor in list or NULL"],
       bounds_txt="one API call, list <= 3 records, every cursor position; nested calls of any number follow by induction (cursor stays 'next surviving record')",
       outside=OUT)

    DELIVER = ("delivery contract checked at every handler invocation against the shadow list of registration INSTANCES: called only during vbi_send_event with the "
               "event passed through, the instance is live with exactly this (function, user pointer), its mask contains the type, not called before for this event, "
               "serial number above the previously called one (registration order), no due instance (registered for the type before the raise, not removed / not "
               "masked out since) was skipped; after the traversal every due instance was called exactly once, instances added during delivery at most once; "
               "event_mask == OR of live masks and TTX reset edge after every nested API call; mutex held in callbacks, released afterwards; "
               "afterwards the list is exactly the expected one and I holds again. ")

    ob("deliver_1_safe", "h_deliver",
       "from every list satisfying I (0..3 records) one vbi_send_event with symbolic type; one of the invoked handlers makes one nested API call (register or legacy "
       "add, any function/user pointer incl. itself, any 32-bit mask incl. 0 = unregister/remove). " + DELIVER +
       "All pointer checks on: the traversal never reads a freed record (self-removal, removal of the next record, removal of the tail).",
       dict(n0=3, cbk=1), ["end", "three_calls", "added_during_delivery_called", "removed_itself", "removed_before_its_turn", "ttx_on_in_callback"],
       timeout=400, assumes=[ASSUME_I, TYPES],
       bounds_txt="list <= 3 records, 1 event, <= 1 nested API call per event; 3 handler functions x 2 user pointers", outside=OUT)

    ob("deliver_direct", "h_deliver",
       "as deliver_1_safe but with the VERBATIM indirect call of vbi_send_event (no dispatcher cut): CBMC's function pointer removal over the 3 handler functions. " + DELIVER,
       dict(n0=2, cbk=1, direct=True), ["end", "added_during_delivery_called", "removed_itself", "removed_before_its_turn"],
       timeout=400, assumes=[ASSUME_I, TYPES],
       bounds_txt="list <= 2 records, 1 event, <= 1 nested API call", outside=OUT)

    MASK6 = "0x4000001F"   # CLOSE, TTX_PAGE, CAPTION, NETWORK, TRIGGER + one undefined bit
    REACH_D = ["end", "three_calls", "added_during_delivery_called", "removed_itself", "removed_before_its_turn", "ttx_on_in_callback"]
    MTXT = ("masks: any subset of the 6 bits %s (CLOSE, TTX_PAGE, CAPTION, NETWORK, TRIGGER, one undefined bit); the list code treats mask bits uniformly "
            "(zero test, |=, & type), all 32 bits are covered by api_step*, deliver_1_safe and the [full] instance" % MASK6)

    ob("deliver_2_nested_full", "h_deliver",
       "deliver_2_safe with all 32-bit masks. " + DELIVER,
       dict(n0=3, cbk=2), REACH_D, functional=True, timeout=1800, otier="thorough", solver="cadical", assumes=[ASSUME_I, TYPES],
       bounds_txt="list <= 3 records, 1 event, <= 2 nested API calls per event, one per callback; all 32-bit masks", outside=OUT)

    ob("deliver_2_selfreadd", "h_deliver",
       "from every list satisfying I (0..3 records) one event; every invoked handler may make up to TWO nested API calls (so a handler can remove itself and register "
       "itself again = new instance at the end of the order, called at most once more), two nested calls per event in total. " + DELIVER,
       dict(n0=3, cbk=2, nact=2, extra=dict(MASK_AND=MASK6)), REACH_D, functional=True, timeout=400, assumes=[ASSUME_I, TYPES],
       bounds_txt="list <= 3 records, 1 event, <= 2 nested API calls per event (both may come from one callback); " + MTXT, outside=OUT)

    ob("deliver_3_nested", "h_deliver",
       "from every list satisfying I (0..3 records) one event; up to three invoked handlers make one nested API call each. " + DELIVER,
       dict(n0=3, cbk=3, extra=dict(MASK_AND=MASK6)), REACH_D, functional=True, timeout=1800, otier="thorough", assumes=[ASSUME_I, TYPES],
       bounds_txt="list <= 3 records, 1 event, <= 3 nested API calls per event, one per callback; " + MTXT, outside=OUT)

    ob("deliver_2_safe", "h_deliver",
       "from every list satisfying I (0..3 records) one event; up to two invoked handlers make one nested API call each (e.g. the first removes the third, the second "
       "registers it again = new instance at the end of the order). " + DELIVER +
       "All pointer checks on (no freed record read by the traversal or by the nested list walks after two nested removals/additions).",
       dict(n0=3, cbk=2, extra=dict(MASK_AND=MASK6)), REACH_D, timeout=400, assumes=[ASSUME_I, TYPES],
       bounds_txt="list <= 3 records, 1 event, <= 2 nested API calls per event, one per callback; " + MTXT, outside=OUT)

    ob("deliver_2_events", "h_deliver",
       "from every list satisfying I (0..3 records) TWO events in a row (symbolic types), one nested API call per event: a registration/mask change/removal made "
       "during the first event is in force for the second (no stale cursor, no stale 'called' state). " + DELIVER,
       dict(n0=3, cbk=1, nev=2, extra=dict(MASK_AND=MASK6)), REACH_D, functional=True, timeout=1200, otier="thorough", assumes=[ASSUME_I, TYPES],
       bounds_txt="list <= 3 records, 2 events, <= 1 nested API call per event; " + MTXT, outside=OUT)

    ob("deliver_wrappers", "h_deliver",
       "as deliver_1_safe, the nested call may also be one of the wrappers vbi_event_handler_unregister / vbi_event_handler_remove. " + DELIVER,
       dict(n0=3, cbk=1, extra=dict(CB_WRAPPERS=1)), REACH_D, timeout=1800, otier="thorough", assumes=[ASSUME_I, TYPES],
       bounds_txt="list <= 3 records, 1 event, <= 1 nested API call; all 32-bit masks", outside=OUT)

    ob("deliver_1_safe_n4", "h_deliver",
       "as deliver_1_safe with up to 4 records in the initial list and 4 handler functions. " + DELIVER,
       dict(n0=4, cbk=1, nf=4), REACH_D, timeout=1800, otier="thorough", assumes=[ASSUME_I, TYPES],
       bounds_txt="list <= 4 records, 4 handler functions x 2 user pointers, 1 event, <= 1 nested API call; all 32-bit masks", outside=OUT)

    ob("api_step_n5", "h_api_step", "api_step with lists of 0..5 records (of the 6 possible (function, user pointer) pairs)",
       dict(n0=5, cbk=1), ["end", "appended", "removed_two", "ttx_on", "ttx_off"], timeout=300, assumes=[ASSUME_I],
       bounds_txt="one API call from any list of <= 5 records", outside=OUT)
    ob("api_step_in_callback_n5", "h_api_step_cb", "api_step_in_callback with lists of 0..5 records and every cursor position",
       dict(n0=5, cbk=1), ["end", "cursor_patched", "cursor_tail_removed", "ttx_on_in_callback"], timeout=300, assumes=[ASSUME_I],
       bounds_txt="one API call from any list of <= 5 records, every cursor position", outside=OUT)

    ob("events_seq", "h_events",
       "SEQ cross-check without the invariant: zero decoder (constructor state) satisfies I; 3 symbolic API calls (all four functions); I and the exact list after them; "
       "then one event with one nested API call. " + DELIVER,
       dict(n0=1, r_ops=3, cbk=1), ["end", "three_calls", "added_during_delivery_called", "removed_itself", "removed_before_its_turn", "ttx_on", "ttx_off"],
       functional=True, timeout=1800, otier="thorough", assumes=[TYPES],
       bounds_txt="3 API calls, 1 event, <= 1 nested API call; all 32-bit masks", outside=OUT)

    return obs
