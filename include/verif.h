/* verif.h - common harness API for the zvbi solver checks.
 *
 * Every harness draws ALL of its symbolic input from one byte array VINS.b[]
 * with a concrete read cursor.  Under CBMC the array is one nondeterministic
 * struct assignment (so a counterexample trace contains it as one value);
 * in the native (replay) build it is loaded from a file.  The same harness
 * source therefore runs symbolically and concretely.
 */
#ifndef VERIF_H
#define VERIF_H
#include <stdint.h>
#include <stddef.h>
#include <string.h>

#ifndef VIN_SIZE
#define VIN_SIZE 256
#endif
struct vin_s { uint8_t b[VIN_SIZE]; };
static struct vin_s VINS;
static unsigned vin_pos;

#ifdef VERIF_CBMC
struct vin_s nondet_vin(void);
#define V_INIT() do { VINS = nondet_vin(); vin_pos = 0; } while (0)
#define V_ASSUME(c) __CPROVER_assume(c)
#define V_ASSERT(c, tag) __CPROVER_assert((c), "VP:" tag)
#ifdef VERIF_NO_WITNESS   /* trace run for a failed unwinding assertion: the witnesses (which fail by construction) are compiled out */
#define V_REACH(tag) do { } while (0)
#define V_END() do { } while (0)
#else
#define V_REACH(tag) __CPROVER_assert(0, "WITNESS:" tag)
#define V_END() __CPROVER_assert(0, "WITNESS:end")
#endif
#define V_HARNESS(name) void name(void)
#define V_NATIVE 0
#else
#include <stdio.h>
#include <stdlib.h>
#include <unistd.h>
#define V_NATIVE 1
struct v_reg { const char *name; void (*fn)(void); struct v_reg *next; };
static struct v_reg *v_reg_head;
#define V_INIT() do { vin_pos = 0; } while (0)
#define V_ASSUME(c) do { if (!(c)) { printf("ASSUME-FALSE %s:%d\n", __FILE__, __LINE__); fflush(stdout); _exit(77); } } while (0)
#define V_ASSERT(c, tag) do { if (!(c)) { printf("VP-ASSERT-FAILED %s %s:%d\n", tag, __FILE__, __LINE__); fflush(stdout); _exit(99); } } while (0)
#define V_REACH(tag) do { } while (0)
#define V_END() do { } while (0)
#define V_HARNESS(name) \
  void name(void); \
  static struct v_reg v_reg_##name = { #name, name, 0 }; \
  __attribute__((constructor)) static void v_ctor_##name(void) { v_reg_##name.next = v_reg_head; v_reg_head = &v_reg_##name; } \
  void name(void)
int main(int argc, char **argv)
{
  struct v_reg *r;
  if (argc < 3) { fprintf(stderr, "usage: %s <harness> <vinfile>\n", argv[0]); return 2; }
  memset(&VINS, 0, sizeof VINS);
  { FILE *f = fopen(argv[2], "rb"); if (!f) { perror(argv[2]); return 2; }
    size_t n = fread(VINS.b, 1, VIN_SIZE, f); (void) n; fclose(f); }
  for (r = v_reg_head; r; r = r->next)
    if (0 == strcmp(r->name, argv[1])) { r->fn(); printf("NATIVE-OK\n"); return 0; }
  fprintf(stderr, "no harness %s\n", argv[1]); return 2;
}
#endif

static inline uint8_t in_u8(void) { return VINS.b[vin_pos++]; }
static inline uint16_t in_u16(void) { uint16_t a = in_u8(); uint16_t b = in_u8(); return (uint16_t)(a | (b << 8)); }
static inline uint32_t in_u32(void) { uint32_t a = in_u16(); uint32_t b = in_u16(); return a | (b << 16); }
static inline uint64_t in_u64(void) { uint64_t a = in_u32(); uint64_t b = in_u32(); return a | (b << 32); }
static inline int in_int(void) { return (int) in_u32(); }
static inline int in_bool(void) { return in_u8() & 1; }
/* n must be a compile-time constant for CBMC efficiency */
#define in_bytes(p, n) do { memcpy((p), &VINS.b[vin_pos], (n)); vin_pos += (n); } while (0)

#endif /* VERIF_H */
